import VrpProofs.C19.Arith
import VrpProofs.C19.Map
import VrpProofs.C19.Contract
import VrpProofs.C19.Train
/-!
# C19 — the self-organising population keeps a well-formed map

Main statements (helpers in `VrpProofs/C19/{Arith,Map,Contract,Train}.lean`):

* `remap1_strictMono`, `remap1_injective`, `shift_injective` — the coordinate remap of `contract_graph` is injective on
  the surviving nodes for every positive step (Arith, Contract);
* `remap1_eq_specPos`, `contract_keys_perm_spec` — the code's arithmetic equals the rank specification (Arith, Contract);
* `compact_keeps_count`, `compact_never_grows`, `compact_leaves_ge` (Contract) and their instances for
  `Network::compact` with the constants extracted from the source (`compact_never_grows'`, `compact_leaves_ge_4`, …);
* `wf_insertKV`, `wf_remove`, `wf_remap` — `key = node.coordinate` and uniqueness preserved; `find_exact`,
  `find_insert_*`, `find_remove_*` (Map);
* `growTargets_fresh`, `update_keeps_nodes`, `wf_trainBatch`, `keys_smooth` (Train);
* here: `wf_run` (every sequence of public operations keeps the map well formed), `wf_newNetwork`, the `Bool`
  specification the driver evaluates is implied by the invariant, storages/elite within capacity, `phase_monotone`.

**Partial by nature** (`_partial` is not attached to single theorems: they are complete statements about the coordinate
layer): finiteness of `f64` weights and error measures is not a statement about this model at all; it is checked on the
real values by the harness only.
-/
set_option linter.unusedSimpArgs false
set_option linter.unusedVariables false
namespace C19

/-! ## side conditions on the constants extracted from the source -/

/-- the decimation steps of `Network::compact` are positive (what injectivity needs) -/
theorem decim_positive : 0 < Gen.decimMin ∧ 0 < Gen.decimMax := by decide

/-- the code shapes the model mirrors are still found verbatim in the source (removal test on either axis, wider axis
    gets the smaller step, body of `get_offset`) -/
theorem source_shape_as_modelled :
    Gen.removalOnEitherAxis = true ∧ Gen.widerAxisGetsMin = true ∧ Gen.offsetBodyAsModelled = true := by decide

/-- the default configuration of the population satisfies the preconditions of the map: enough initial individuals for
    `Network::new` (`≥ sampleMin`), a non-zero re-balance period (`generation % rebalance_memory`), and the thresholds
    `Rosomaxa::new` checks are themselves at least 1 (so an accepted configuration has capacity ≥ 1 everywhere) -/
theorem default_config_ok :
    Gen.sampleMin ≤ Gen.defaultInitialSize ∧ 1 ≤ Gen.defaultRebalanceMemory ∧
    Gen.minElite ≤ Gen.defaultEliteSize ∧ Gen.minNode ≤ Gen.defaultNodeSize ∧ 1 ≤ Gen.minElite ∧ 1 ≤ Gen.minNode ∧
    Gen.sampleMin ≤ Gen.sampleMax ∧ Gen.guardMin ≤ Gen.sampleMin := by decide

/-! ## `Network::compact` (decimation and guard from the source) -/

/-- **compaction never grows the map** -/
theorem compact_never_grows' (net : Net) : (compact net).length ≤ net.length :=
  compact_never_grows net _ _ _

/-- **compaction never leaves fewer than four nodes** (of a map that had four): `min 4 size ≤ size after` -/
theorem compact_leaves_ge_4 (net : Net) (hwf : WF net) : min Gen.guardMin net.length ≤ (compact net).length :=
  compact_leaves_ge net hwf _ _ _ decim_positive.1 decim_positive.2

example : Gen.guardMin = 4 := by decide

theorem compact_keeps_count' (net : Net) (hwf : WF net)
    (hgo : ¬ (survivors net (steps net Gen.decimMin Gen.decimMax).1 (steps net Gen.decimMin Gen.decimMax).2).length < Gen.guardMin) :
    (compact net).length =
      (survivors net (steps net Gen.decimMin Gen.decimMax).1 (steps net Gen.decimMin Gen.decimMax).2).length :=
  compact_keeps_count net hwf _ _ _ decim_positive.1 decim_positive.2 hgo

theorem wf_compact (net : Net) (hwf : WF net) : WF (compact net) := wf_contract net hwf _ _ _

theorem bounded_compact (cap dim : Nat) (net : Net) (hwf : WF net) (hb : Bounded cap dim net) : Bounded cap dim (compact net) :=
  bounded_contract cap dim net hwf hb _ _ _ decim_positive.1 decim_positive.2

/-- the coordinates after `Network::compact` are the specification applied to the coordinates before -/
theorem compact_keys_perm_spec (net : Net) (hwf : WF net) (hne : net ≠ []) (hr : InRange (keys net)) :
    (keys (compact net)).Perm (specContract (keys net) Gen.decimMin.toNat Gen.decimMax.toNat Gen.guardMin) := by
  have h := contract_keys_perm_spec net hwf hne hr Gen.decimMin.toNat Gen.decimMax.toNat Gen.guardMin (by decide) (by decide)
  have e1 : ((Gen.decimMin.toNat : Nat) : Int) = Gen.decimMin := by decide
  have e2 : ((Gen.decimMax.toNat : Nat) : Int) = Gen.decimMax := by decide
  rw [e1, e2] at h
  exact h

/-- a concrete map: the 5×3 grid around the origin (steps 3 on x, 4 on y) loses column 0 and row 0 and becomes the 4×2
    grid `{-1..2} × {0,1}`: 8 of 15 nodes survive, each under a different coordinate -/
def grid53 : Net :=
  ([-2, -1, 0, 1, 2].flatMap (fun x => [-1, 0, 1].map (fun y => ((x, y), (⟨(x, y), 1, 2⟩ : Node)))))

example : (keys (compact grid53)).length = 8 ∧
    sameSetB (keys (compact grid53)) [(-1, 0), (-1, 1), (0, 0), (0, 1), (1, 0), (1, 1), (2, 0), (2, 1)] = true ∧
    sameSetB (specContract (keys grid53) 3 4 4) (keys (compact grid53)) = true := by decide

/-- the guard at work: a 2×2 grid would keep a single node, so nothing happens -/
example : keys (compact (([0, 1].flatMap (fun x => [0, 1].map (fun y => ((x, y), (⟨(x, y), 1, 2⟩ : Node))))) : Net))
    = [(0, 0), (0, 1), (1, 0), (1, 1)] := by decide

/-! ## every sequence of public operations keeps the map well formed -/

theorem wf_applyOp (cap dim : Nat) (net : Net) (op : Op) (hwf : WF net) (hb : Bounded cap dim net) :
    WF (applyOp cap dim net op) ∧ Bounded cap dim (applyOp cap dim net op) := by
  cases op with
  | store hits => exact ⟨wf_trainBatch _ _ _ _ _ hwf, bounded_trainBatch _ _ _ _ _ hb⟩
  | smooth rounds => exact wf_smooth cap dim net rounds hwf hb
  | compact hits =>
    exact ⟨wf_trainBatch _ _ _ _ _ (wf_compact net hwf),
           bounded_trainBatch _ _ _ _ _ (bounded_compact cap dim net hwf hb)⟩

/-- **WF(network) after every store_batch / smooth / compact**, for any stream of inputs and any outcome of the
    float-dependent decisions (which unit matches, whether the error threshold is exceeded, what dedup keeps):
    coordinates unique, key = node.coordinate, every node within capacity and of the data dimension -/
theorem wf_run (cap dim : Nat) (ops : List Op) (net : Net) (hwf : WF net) (hb : Bounded cap dim net) :
    WF (ops.foldl (applyOp cap dim) net) ∧ Bounded cap dim (ops.foldl (applyOp cap dim) net) := by
  induction ops generalizing net with
  | nil => exact ⟨hwf, hb⟩
  | cons op rest ih =>
    obtain ⟨h1, h2⟩ := wf_applyOp cap dim net op hwf hb
    exact ih _ h1 h2

/-- the size relations of the single operations: `store_batch` keeps every coordinate, `smooth` keeps the coordinate set,
    `compact` (+ re-training) has the coordinates of the contraction, so it never grows and keeps ≥ min(4, size) nodes -/
theorem applyOp_size (cap dim : Nat) (net : Net) (op : Op) (hwf : WF net) :
    match op with
    | .store _ => ∀ k ∈ keys net, k ∈ keys (applyOp cap dim net op)
    | .smooth _ => keys (applyOp cap dim net op) = keys net
    | .compact _ => keys (applyOp cap dim net op) = keys (compact net) ∧
        (applyOp cap dim net op).length ≤ net.length ∧ min Gen.guardMin net.length ≤ (applyOp cap dim net op).length := by
  cases op with
  | store hits => exact fun k hk => keys_trainBatch_superset cap dim true net hits k hk
  | smooth rounds => exact keys_smooth cap dim net rounds
  | compact hits =>
    have hk : keys (applyOp cap dim net (.compact hits)) = keys (compact net) := keys_trainBatch_false cap dim _ hits
    have hl : (applyOp cap dim net (.compact hits)).length = (compact net).length := by
      have := congrArg List.length hk
      simpa [keys] using this
    exact ⟨hk, hl ▸ compact_never_grows' net, hl ▸ compact_leaves_ge_4 net hwf⟩

/-! ## a new network -/

theorem initialCoords_nodup (n g : Nat) (hg : 0 < g) : (initialCoords n g).Nodup := by
  unfold initialCoords
  apply nodup_map_of_inj_on
  · intro a _ b _ h
    simp only [Prod.mk.injEq, Int.natCast_inj] at h
    have ha := Nat.div_add_mod a g
    have hb := Nat.div_add_mod b g
    rw [h.1, h.2] at ha
    omega
  · exact List.nodup_range

theorem wf_initialNet (dim n g : Nat) (held : Coord → Nat) (hg : 0 < g) : WF (initialNet dim n g held) := by
  constructor
  · have : keys (initialNet dim n g held) = initialCoords n g := by
      unfold keys initialNet; rw [List.map_map]; simp [Function.comp_def]
    rw [this]; exact initialCoords_nodup n g hg
  · intro e he
    unfold initialNet at he
    obtain ⟨c, _, rfl⟩ := List.mem_map.mp he
    rfl

theorem keys_resizeAll (size : Nat) (net : Net) : keys (resizeAll size net) = keys net := by
  unfold keys resizeAll; rw [List.map_map]; rfl

/-- **the map `Network::new` returns is well formed and every node holds at most `node_size` items** -/
theorem wf_newNetwork (dataSize nodeSize dim n g : Nat) (held : Coord → Nat) (rounds : List (List Hit)) (hg : 0 < g) :
    WF (newNetwork dataSize nodeSize dim n g held rounds) ∧ Bounded nodeSize dim (newNetwork dataSize nodeSize dim n g held rounds) := by
  have hwf0 : WF (rounds.foldl (retrainOnce dataSize dim true) (initialNet dim n g held)) := by
    have : ∀ (rs : List (List Hit)) (net : Net), WF net → WF (rs.foldl (retrainOnce dataSize dim true) net) := by
      intro rs
      induction rs with
      | nil => exact fun _ h => h
      | cons r rest ih => exact fun net h => ih _ (wf_trainBatch _ _ _ _ _ (wf_drainAll net h))
    exact this rounds _ (wf_initialNet dim n g held hg)
  have hdim : ∀ e ∈ rounds.foldl (retrainOnce dataSize dim true) (initialNet dim n g held), e.2.wdim = dim := by
    have : ∀ (rs : List (List Hit)) (net : Net), (∀ e ∈ net, e.2.wdim = dim) →
        ∀ e ∈ rs.foldl (retrainOnce dataSize dim true) net, e.2.wdim = dim := by
      intro rs
      induction rs with
      | nil => exact fun _ h => h
      | cons r rest ih =>
        intro net h
        apply ih
        -- dimension is a `Bounded` statement with an unbounded capacity: use capacity = max of everything via `bounded_*`
        have hb : Bounded dataSize dim (drainAll net) := by
          intro e he
          unfold drainAll at he
          obtain ⟨e0, he0, rfl⟩ := List.mem_map.mp he
          exact ⟨Nat.zero_le _, h e0 he0⟩
        exact fun e he => (bounded_trainBatch dataSize dim true _ r hb e he).2
    apply this
    intro e he
    unfold initialNet at he
    obtain ⟨c, _, rfl⟩ := List.mem_map.mp he
    rfl
  unfold newNetwork
  constructor
  · constructor
    · rw [keys_resizeAll]; exact hwf0.nodup
    · intro e he
      unfold resizeAll at he
      obtain ⟨e0, he0, rfl⟩ := List.mem_map.mp he
      exact hwf0.keyEq e0 he0
  · intro e he
    unfold resizeAll at he
    obtain ⟨e0, he0, rfl⟩ := List.mem_map.mp he
    exact ⟨Nat.min_le_right _ _, hdim e0 he0⟩

example : initialCoords 5 3 = [(0, 0), (1, 0), (2, 0), (0, 1), (1, 1)] := by decide

/-! ## the invariant implies the `Bool` specification the driver evaluates on the implementation's dumps -/

theorem wfB_of_wf (cap dim : Nat) (net : Net) (hwf : WF net) (hb : Bounded cap dim net) : wfB cap dim net = true := by
  unfold wfB
  simp only [Bool.and_eq_true, decide_eq_true_eq, List.all_eq_true]
  refine ⟨⟨hwf.nodup, ?_⟩, ?_⟩
  · rw [coords_eq_keys net hwf]; exact hwf.nodup
  · intro e he
    exact ⟨⟨hwf.keyEq e he, (hb e he).1⟩, (hb e he).2⟩

theorem wf_of_wfB (cap dim : Nat) (net : Net) (h : wfB cap dim net = true) : WF net ∧ Bounded cap dim net := by
  unfold wfB at h
  simp only [Bool.and_eq_true, decide_eq_true_eq, List.all_eq_true] at h
  exact ⟨⟨h.1.1, fun e he => (h.2 e he).1.1⟩, fun e he => ⟨(h.2 e he).1.2, (h.2 e he).2⟩⟩

/-- **lookup meets its specification**: `find` returns `none` exactly for absent coordinates and otherwise the very entry
    stored under the coordinate -/
theorem find_meets_spec (net : Net) (c : Coord) : findSpecB net c (find net c) = true := by
  unfold findSpecB
  cases hf : find net c with
  | none =>
    simp only [Bool.not_eq_true', List.contains_eq_mem, decide_eq_false_iff_not]
    exact (find_eq_none_iff net c).mp hf
  | some n =>
    simp only [List.contains_eq_mem, decide_eq_true_eq]
    exact find_some_mem net c n hf

/-- and conversely, on a map with unique coordinates the specification pins the answer down -/
theorem findSpec_unique (net : Net) (hnd : (keys net).Nodup) (c : Coord) (r : Option Node)
    (h : findSpecB net c r = true) : r = find net c := by
  unfold findSpecB at h
  cases r with
  | none =>
    simp only [Bool.not_eq_true', List.contains_eq_mem, decide_eq_false_iff_not] at h
    exact ((find_eq_none_iff net c).mpr h).symm
  | some n =>
    simp only [List.contains_eq_mem, decide_eq_true_eq] at h
    exact (find_of_mem net c n hnd h).symm

/-! ## storages and the elite stay within capacity -/

theorem elitismAdd_length_le (norm : List Int → List Int) (cap : Nat) (xs new : List Int) :
    (elitismAdd norm cap xs new).length ≤ cap := by
  unfold elitismAdd; rw [List.length_take]; exact Nat.min_le_left _ _

/-- **elite bounds**: the elite never exceeds `elite_size` … -/
theorem popAddElite_length_le (norm : List Int → List Int) (cap : Nat) (elite offered : List Int)
    (h : elite.length ≤ cap) : (popAddElite norm cap elite offered).length ≤ cap := by
  unfold popAddElite
  split
  · exact h
  · exact elitismAdd_length_le _ _ _ _

theorem eliteCandidates_nil (offered : List Int) : eliteCandidates [] offered = offered := rfl

/-- … and is never empty once an individual has been offered (sorting/dedup keep at least one element of a non-empty
    list; capacity ≥ 1 as `Rosomaxa::new` demands) -/
theorem popAddElite_nonempty (norm : List Int → List Int) (cap : Nat) (elite offered : List Int)
    (hnorm : ∀ l, l ≠ [] → norm l ≠ []) (hcap : 1 ≤ cap) (h : elite ≠ [] ∨ offered ≠ []) :
    popAddElite norm cap elite offered ≠ [] := by
  unfold popAddElite
  split
  · rename_i hc
    rcases h with h | h
    · exact h
    · intro he
      subst he
      rw [eliteCandidates_nil, List.isEmpty_iff] at hc
      exact h hc
  · rename_i hc
    unfold elitismAdd
    have hne : norm (elite ++ eliteCandidates elite offered) ≠ [] := by
      apply hnorm
      intro happ
      have := (List.append_eq_nil_iff.mp happ).2
      simp [this] at hc
    intro hnil
    have hlen := congrArg List.length hnil
    rw [List.length_take] at hlen
    have : 0 < (norm (elite ++ eliteCandidates elite offered)).length := List.length_pos_iff.mpr hne
    simp only [List.length_nil] at hlen
    omega

/-- a structurally recursive sort for the examples -/
def insSorted (x : Int) : List Int → List Int
  | [] => [x]
  | y :: ys => if x ≤ y then x :: y :: ys else y :: insSorted x ys
def insSort : List Int → List Int
  | [] => []
  | x :: xs => insSorted x (insSort xs)

/-- only the individual not worse than the best known (5) is offered; the elite keeps its two best -/
example : popAddElite insSort 2 [5, 9] [3, 7, 11] = [3, 5] := by decide
/-- nothing comparable with the best known: the elite is untouched -/
example : popAddElite insSort 2 [5, 9] [7, 11] = [5, 9] := by decide
example : popAddElite insSort 2 [] [7, 11, 4] = [4, 7] := by decide

/-! ## phases only move forward -/

theorem rank_addAll (p : Phase) (n : Nat) : rank (addAll p n) = rank p := by
  cases p <;> rfl

theorem updatePhase_initial (initialSize : Nat) (er64 : Int) (k : Nat) (s : Stats) :
    updatePhase initialSize er64 (.initial k) s =
      if s.te > effRatio er64 s then .exploitation else if k ≥ initialSize then .exploration else .initial k := rfl

theorem updatePhase_exploration (initialSize : Nat) (er64 : Int) (s : Stats) :
    updatePhase initialSize er64 .exploration s = if s.te < effRatio er64 s then .exploration else .exploitation := rfl

theorem updatePhase_exploitation (initialSize : Nat) (er64 : Int) (s : Stats) :
    updatePhase initialSize er64 .exploitation s = .exploitation := rfl

/-- one generation tick never moves the phase backwards, whatever the statistics are -/
theorem updatePhase_rank_le (initialSize : Nat) (er64 : Int) (p : Phase) (s : Stats) :
    rank p ≤ rank (updatePhase initialSize er64 p s) := by
  cases p with
  | initial k => simp [rank]
  | exploration =>
    rw [updatePhase_exploration]
    split <;> simp [rank]
  | exploitation => simp [updatePhase_exploitation, rank]

/-- exploitation is final -/
theorem exploitation_absorbing (initialSize : Nat) (er64 : Int) (s : Stats) (n : Nat) :
    updatePhase initialSize er64 (addAll .exploitation n) s = .exploitation := rfl

/-- the exploration phase (and with it the map) is only entered with at least `initial_size` collected individuals -/
theorem exploration_entry (initialSize : Nat) (er64 : Int) (k : Nat) (s : Stats)
    (h : updatePhase initialSize er64 (.initial k) s = .exploration) : initialSize ≤ k := by
  rw [updatePhase_initial] at h
  split at h
  · cases h
  · split at h
    · assumption
    · cases h

/-- flattened ranks of a run: after `add_all`, after `on_generation`, … -/
def runRanks (l : List (Phase × Phase)) : List Nat := l.flatMap (fun pq => [rank pq.1, rank pq.2])

theorem runRanks_cons (pq : Phase × Phase) (l : List (Phase × Phase)) :
    runRanks (pq :: l) = rank pq.1 :: rank pq.2 :: runRanks l := rfl

theorem monotone_run_aux (initialSize : Nat) (er64 : Int) (ticks : List (Nat × Stats)) (p : Phase) :
    List.Pairwise (· ≤ ·) (rank p :: runRanks (runPhases initialSize er64 p ticks)) := by
  induction ticks generalizing p with
  | nil => simp [runPhases, runRanks]
  | cons t rest ih =>
    obtain ⟨n, s⟩ := t
    have h1 : rank (addAll p n) = rank p := rank_addAll p n
    have h2 := updatePhase_rank_le initialSize er64 (addAll p n) s
    have ih' := ih (updatePhase initialSize er64 (addAll p n) s)
    simp only [runPhases, runRanks_cons]
    rw [List.pairwise_cons] at ih' ⊢
    refine ⟨?_, ?_⟩
    · intro r hr
      rcases List.mem_cons.mp hr with rfl | hr
      · omega
      · rcases List.mem_cons.mp hr with rfl | hr
        · omega
        · have := ih'.1 r hr; omega
    · rw [List.pairwise_cons]
      refine ⟨?_, ?_⟩
      · intro r hr
        rcases List.mem_cons.mp hr with rfl | hr
        · omega
        · have := ih'.1 r hr; omega
      · rw [List.pairwise_cons]; exact ih'

/-- **`phase_monotone`**: along ANY run of `add_all` / `on_generation` calls, with any statistics (termination estimates
    jumping back and forth, any speed), the phase only moves Initial → Exploration → Exploitation (Initial → Exploitation
    allowed), never back: every earlier rank is ≤ every later rank -/
theorem phase_monotone (initialSize : Nat) (er64 : Int) (ticks : List (Nat × Stats)) (p : Phase) :
    List.Pairwise (· ≤ ·) (runRanks (runPhases initialSize er64 p ticks)) :=
  (List.pairwise_cons.mp (monotone_run_aux initialSize er64 ticks p)).2

theorem monotoneB_of_pairwise (l : List Nat) (h : List.Pairwise (· ≤ ·) l) : monotoneB l = true := by
  induction l with
  | nil => rfl
  | cons a rest ih =>
    cases rest with
    | nil => rfl
    | cons b rest' =>
      rw [List.pairwise_cons] at h
      simp only [monotoneB, Bool.and_eq_true, decide_eq_true_eq]
      exact ⟨h.1 b (List.mem_cons_self ..), ih h.2⟩

/-- the `Bool` check the driver runs on the recorded phases holds on every run of the model -/
theorem phase_monotoneB (initialSize : Nat) (er64 : Int) (ticks : List (Nat × Stats)) (p : Phase) :
    monotoneB (runRanks (runPhases initialSize er64 p ticks)) = true :=
  monotoneB_of_pairwise _ (phase_monotone initialSize er64 ticks p)

/-- a run that visits all three phases (exploration ratio 58/64, initial size 4), including a termination estimate that
    jumps BACK below the ratio after exploitation started: the phase stays -/
example : (runPhases 4 58 (.initial 0)
    [(3, ⟨0, none⟩), (2, ⟨100, none⟩), (1, ⟨500, none⟩), (1, ⟨950, none⟩), (1, ⟨10, none⟩)]).map (fun pq => rank pq.2)
    = [0, 1, 1, 2, 2] := by decide

/-- Initial → Exploitation directly (too few individuals before the exploration budget is spent) -/
example : (runPhases 16 58 (.initial 0) [(3, ⟨0, none⟩), (2, ⟨1000, none⟩)]).map (fun pq => rank pq.2) = [0, 2] := by decide

/-- a slow speed shrinks the exploration budget: 58/64 · 4/16 ⇒ exploitation already at te = 300/1024 -/
example : updatePhase 4 58 .exploration ⟨300, some 4⟩ = .exploitation ∧ updatePhase 4 58 .exploration ⟨300, none⟩ = .exploration := by
  decide

/-! ## headline -/

/-- **C19, map part (`_partial`)**: the map `Network::new` builds, followed by ANY sequence of `store_batch` / `smooth` /
    `compact` calls with ANY outcome of the float-dependent decisions, satisfies the executable well-formedness
    specification `wfB` (coordinates unique — as keys and as `node.coordinate` —, key = node.coordinate, every node holds
    at most `node_size` items and has weights of the input dimension).
    Partial: the property also demands that weights and error measures stay *finite*; that is a statement about `f64`
    values which this model does not carry — it is checked on the real values by the harness only. -/
theorem map_well_formed_partial (dataSize nodeSize dim n g : Nat) (held : Coord → Nat) (rounds : List (List Hit)) (hg : 0 < g)
    (ops : List Op) :
    wfB nodeSize dim (ops.foldl (applyOp nodeSize dim) (newNetwork dataSize nodeSize dim n g held rounds)) = true := by
  obtain ⟨h1, h2⟩ := wf_newNetwork dataSize nodeSize dim n g held rounds hg
  obtain ⟨h3, h4⟩ := wf_run nodeSize dim ops _ h1 h2
  exact wfB_of_wf nodeSize dim _ h3 h4

/-- a run in which the map grows (the unit at the corner (0,0) of the initial 2×2 grid exceeds its error budget: its two
    absent main-direction neighbours are added) and is then compacted -/
example :
    let net0 := newNetwork 10 2 3 4 2 (fun _ => 5) []
    let net1 := applyOp 2 3 net0 (.store [⟨(0, 0), true, 3⟩, ⟨(1, 1), false, 1⟩])
    sameSetB (keys net0) [(0, 0), (1, 0), (0, 1), (1, 1)] = true ∧
    sameSetB (keys net1) [(0, 0), (1, 0), (0, 1), (1, 1), (-1, 0), (0, -1)] = true ∧
    find net1 (0, 0) = some ⟨(0, 0), 2, 3⟩ ∧ find net1 (-1, 0) = some ⟨(-1, 0), 0, 3⟩ ∧ find net1 (2, 2) = none ∧
    wfB 2 3 net1 = true ∧
    (applyOp 2 3 net1 (.compact [])).length = 6 := by decide

/-- the hypotheses of `contract_keys_perm_spec` are met by a concrete map -/
example : WF grid53 ∧ grid53 ≠ [] ∧ InRange (keys grid53) := by
  refine ⟨(wf_of_wfB 1 2 grid53 (by decide)).1, by decide, ?_⟩
  intro c hc
  have : (keys grid53).all (fun c => decide (i32Min ≤ c.1 ∧ c.1 ≤ i32Max ∧ i32Min ≤ c.2 ∧ c.2 ≤ i32Max)) = true := by decide
  exact of_decide_eq_true (List.all_eq_true.mp this c hc)

end C19
