import VrpModel.C19
/-!
# C19 — arithmetic of the coordinate remap of `contract_graph`

For every positive decimation step `d` the per-axis map `v ↦ v + get_offset(v, (mn, mx), d)` is strictly monotone on
the surviving indices (`v % d ≠ 0`), hence injective, and equals the rank specification `specPos`.
-/
set_option linter.unusedSimpArgs false
set_option linter.unusedVariables false
namespace C19

/-- `v ↦ v - ⌊v / d⌋` strictly increases whenever the larger argument is not a multiple of `d` -/
theorem pos_step (a b d : Int) (hd : 0 < d) (hab : a < b) (hbm : b % d ≠ 0) : a - a / d < b - b / d := by
  have ea := Int.mul_ediv_add_emod a d
  have eb := Int.mul_ediv_add_emod b d
  have ra0 := Int.emod_nonneg a (Int.ne_of_gt hd)
  have rb0 := Int.emod_nonneg b (Int.ne_of_gt hd)
  have ra1 := Int.emod_lt_of_pos a hd
  have rb1 := Int.emod_lt_of_pos b hd
  have hq : a / d ≤ b / d := Int.ediv_le_ediv hd (Int.le_of_lt hab)
  rcases Int.lt_or_eq_of_le hq with hlt | heq
  · have h1 : (d - 1) * 1 ≤ (d - 1) * (b / d - a / d) :=
      Int.mul_le_mul_of_nonneg_left (by omega) (by omega)
    have h2 : (d - 1) * (b / d - a / d) = d * (b / d) - d * (a / d) - (b / d) + (a / d) := by
      rw [Int.sub_mul, Int.mul_sub, Int.mul_sub]; omega
    omega
  · rw [heq] at ea; omega

/-- a positive non-multiple keeps a positive position: `v - v / d ≥ 1` -/
theorem pos_floor (v d : Int) (hd : 0 < d) (hv : 0 < v) (hm : v % d ≠ 0) : 1 ≤ v - v / d := by
  have h := pos_step 0 v d hd hv hm
  simp at h; omega

/-- Rust's `v % d == 0` (truncating remainder) is divisibility, as is `Int`'s `%` -/
theorem tmod_ne_zero_iff (v d : Int) : Int.tmod v d ≠ 0 ↔ v % d ≠ 0 := by
  constructor
  · intro h h2; exact h (Int.tmod_eq_zero_of_dvd (Int.dvd_of_emod_eq_zero h2))
  · intro h h2; exact h (Int.emod_eq_zero_of_dvd (Int.dvd_of_tmod_eq_zero h2))

theorem neg_emod_ne_zero (v d : Int) (h : v % d ≠ 0) : (-v) % d ≠ 0 := by
  intro h2
  have := Int.dvd_of_emod_eq_zero h2
  exact h (Int.emod_eq_zero_of_dvd ((Int.dvd_neg).mp this))

/-- the new coordinate on one axis: `v + get_offset(v, ..)` with `l = |min|`, `r = |max|` -/
def remap1 (v l r d : Int) : Int := v + (Int.tdiv (-v) d + extra v l r)

theorem remap1_pos (v l r d : Int) (hv : 0 < v) :
    remap1 v l r d = (v - v / d) + (if r > l then -1 else 0) := by
  unfold remap1 extra
  rw [Int.neg_tdiv, Int.tdiv_eq_ediv_of_nonneg (Int.le_of_lt hv)]
  simp [hv]; omega

theorem remap1_neg (v l r d : Int) (hv : v < 0) :
    remap1 v l r d = -((-v) - (-v) / d) + (if r ≤ l then 1 else 0) := by
  unfold remap1 extra
  rw [Int.tdiv_eq_ediv_of_nonneg (by omega)]
  have h1 : ¬ (v > 0) := by omega
  simp [h1, hv]; omega

/-- **strictly monotone on survivors**, for every positive step and whatever the extents `l`, `r` are -/
theorem remap1_strictMono (l r d a b : Int) (hd : 0 < d)
    (ha : Int.tmod a d ≠ 0) (hb : Int.tmod b d ≠ 0) (hab : a < b) :
    remap1 a l r d < remap1 b l r d := by
  rw [tmod_ne_zero_iff] at ha hb
  have ha0 : a ≠ 0 := by intro h; subst h; simp at ha
  have hb0 : b ≠ 0 := by intro h; subst h; simp at hb
  rcases Int.lt_or_lt_of_ne ha0 with han | hap <;> rcases Int.lt_or_lt_of_ne hb0 with hbn | hbp
  · rw [remap1_neg a l r d han, remap1_neg b l r d hbn]
    have := pos_step (-b) (-a) d hd (by omega) (neg_emod_ne_zero a d ha)
    omega
  · rw [remap1_neg a l r d han, remap1_pos b l r d hbp]
    have h1 := pos_floor (-a) d hd (by omega) (neg_emod_ne_zero a d ha)
    have h2 := pos_floor b d hd hbp hb
    split <;> split <;> omega
  · omega
  · rw [remap1_pos a l r d hap, remap1_pos b l r d hbp]
    have := pos_step a b d hd hab hb
    omega

/-- **`remap_injective` per axis**: two surviving indices never get the same new index -/
theorem remap1_injective (l r d a b : Int) (hd : 0 < d)
    (ha : Int.tmod a d ≠ 0) (hb : Int.tmod b d ≠ 0) (h : remap1 a l r d = remap1 b l r d) : a = b := by
  rcases Int.lt_trichotomy a b with hlt | heq | hgt
  · have := remap1_strictMono l r d a b hd ha hb hlt; omega
  · exact heq
  · have := remap1_strictMono l r d b a hd hb ha hgt; omega

example : Int.tmod 1 3 ≠ 0 ∧ Int.tmod (-1) 3 ≠ 0 ∧ remap1 1 2 5 3 = 0 ∧ remap1 (-1) 2 5 3 = -1 := by decide

/-- both `extra` branches firing at once would break injectivity: this is what the side conditions of `extra` prevent -/
example : (1 : Int) + (Int.tdiv (-1) 3 + (-1)) = (-1 : Int) + (Int.tdiv 1 3 + 1) := by decide

theorem survivorsUpTo_eq (v d : Nat) : survivorsUpTo v d = v - v / d := by
  unfold survivorsUpTo
  induction v with
  | zero => simp
  | succ n ih =>
    rw [List.range_succ, List.filter_append, List.length_append, ih, Nat.succ_div]
    have hle : n / d ≤ n := Nat.div_le_self n d
    by_cases hdv : d ∣ n + 1
    · have : (n + 1) % d = 0 := Nat.mod_eq_zero_of_dvd hdv
      simp [hdv, this] <;> omega
    · have : (n + 1) % d ≠ 0 := fun h => hdv (Nat.dvd_of_mod_eq_zero h)
      simp [hdv, this] <;> omega

theorem survivorsUpTo_cast (v : Int) (d : Nat) (hv : 0 ≤ v) :
    (survivorsUpTo v.toNat d : Int) = v - v / (d : Int) := by
  rw [survivorsUpTo_eq]
  have hle : v.toNat / d ≤ v.toNat := Nat.div_le_self _ _
  have h1 : ((v.toNat / d : Nat) : Int) = (v.toNat : Int) / (d : Int) := Int.natCast_ediv _ _
  have h2 : (v.toNat : Int) = v := Int.toNat_of_nonneg hv
  rw [h2] at h1
  omega

/-- **the code's offset arithmetic realises the rank specification** on every column but the (deleted) centre one:
    `v + (-v / d + extra)` = number of surviving columns between the centre and `v`, recentred -/
theorem remap1_eq_specPos (v l r : Int) (d : Nat) (hv : v ≠ 0) :
    remap1 v l r d = specPos v l r d := by
  unfold specPos
  rcases Int.lt_or_lt_of_ne hv with hn | hp
  · have h1 : ¬ (v > 0) := by omega
    rw [remap1_neg v l r d hn, if_neg h1, if_pos hn, survivorsUpTo_cast (-v) d (by omega)]
  · rw [remap1_pos v l r d hp, if_pos hp, survivorsUpTo_cast v d (by omega)]
    split <;> omega

example : specPos 5 2 7 3 = 3 ∧ specPos (-5) 2 7 3 = -4 ∧ specPos 4 7 2 3 = 3 ∧ specPos (-4) 7 2 3 = -2 := by decide

end C19
