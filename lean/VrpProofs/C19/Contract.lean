import VrpProofs.C19.Arith
import VrpProofs.C19.Map
/-!
# C19 — `contract_graph` on the coordinate layer
-/
set_option linter.unusedSimpArgs false
set_option linter.unusedVariables false
namespace C19

theorem shift_eq (sh : (Int × Int) × (Int × Int)) (xd yd : Int) (c : Coord) :
    shift sh xd yd c =
      (remap1 c.1 (Int.natAbs sh.1.1) (Int.natAbs sh.1.2) xd, remap1 c.2 (Int.natAbs sh.2.1) (Int.natAbs sh.2.2) yd) := rfl

theorem not_isRemoved_iff (xd yd : Int) (c : Coord) :
    isRemoved xd yd c = false ↔ Int.tmod c.1 xd ≠ 0 ∧ Int.tmod c.2 yd ≠ 0 := by
  unfold isRemoved
  simp [Bool.or_eq_false_iff]

/-- **`remap_injective`** (product of the two axes): two surviving nodes never get the same new coordinate -/
theorem shift_injective (sh : (Int × Int) × (Int × Int)) (xd yd : Int) (hx : 0 < xd) (hy : 0 < yd) (a b : Coord)
    (ha : isRemoved xd yd a = false) (hb : isRemoved xd yd b = false)
    (h : shift sh xd yd a = shift sh xd yd b) : a = b := by
  rw [not_isRemoved_iff] at ha hb
  rw [shift_eq, shift_eq] at h
  simp only [Prod.mk.injEq] at h
  exact Prod.ext (remap1_injective _ _ xd a.1 b.1 hx ha.1 hb.1 h.1) (remap1_injective _ _ yd a.2 b.2 hy ha.2 hb.2 h.2)

/-- the nodes which survive a contraction with steps `(xd, yd)` -/
def survivors (net : Net) (xd yd : Int) : Net := net.filter (fun e => !isRemoved xd yd e.1)

theorem coords_eq_keys (net : Net) (hwf : WF net) : net.map (·.2.coord) = keys net := by
  unfold keys
  apply List.map_congr_left
  intro e he
  exact hwf.keyEq e he

theorem removed_foldl_eq (net : Net) (hwf : WF net) (xd yd : Int) :
    ((net.map (·.2.coord)).filter (isRemoved xd yd)).foldl remove net = survivors net xd yd := by
  rw [foldl_remove_eq_filter, coords_eq_keys net hwf]
  unfold survivors
  apply List.filter_congr
  intro e he
  have hmem : e.1 ∈ keys net := List.mem_map.mpr ⟨e, he, rfl⟩
  cases hr : isRemoved xd yd e.1 <;> simp [List.mem_filter, hmem, hr]

theorem removed_length (net : Net) (hwf : WF net) (xd yd : Int) :
    ((net.map (·.2.coord)).filter (isRemoved xd yd)).length = (net.filter (fun e => isRemoved xd yd e.1)).length := by
  rw [coords_eq_keys net hwf]
  unfold keys
  rw [List.filter_map, List.length_map]
  rfl

theorem survivors_length (net : Net) (hwf : WF net) (xd yd : Int) :
    net.length - ((net.map (·.2.coord)).filter (isRemoved xd yd)).length = (survivors net xd yd).length := by
  rw [removed_length net hwf]
  have := length_filter_add_length_filter_not (fun e : Coord × Node => isRemoved xd yd e.1) net
  unfold survivors
  omega

theorem keys_survivors (net : Net) (xd yd : Int) :
    keys (survivors net xd yd) = (keys net).filter (fun c => !isRemoved xd yd c) := by
  unfold keys survivors
  rw [List.filter_map]
  rfl

theorem decimation_pos (sh : (Int × Int) × (Int × Int)) (dmin dmax : Int) (hmin : 0 < dmin) (hmax : 0 < dmax) :
    0 < (decimation sh dmin dmax).1 ∧ 0 < (decimation sh dmin dmax).2 := by
  unfold decimation
  simp only
  split
  · exact ⟨hmin, hmax⟩
  · split
    · exact ⟨hmax, hmin⟩
    · exact ⟨hmax, hmax⟩

/-- the survivors relabelled: what `contract_graph` leaves when the guard does not stop it -/
def relabelled (net : Net) (sh : (Int × Int) × (Int × Int)) (xd yd : Int) : Net :=
  ((survivors net xd yd).map
    (fun e => (shift sh xd yd e.1, ({ e.2 with coord := shift sh xd yd e.1 } : Node)))).reverse

/-- the steps `contract_graph` uses on this map -/
def steps (net : Net) (dmin dmax : Int) : Int × Int := decimation (shape net) dmin dmax

/-- the closure handed to `remap` -/
def relabel (net : Net) (xd yd : Int) (c : Coord) (n : Node) : Node := { n with coord := shift (shape net) xd yd c }

theorem contract_unfold (net : Net) (dmin dmax : Int) (guard : Nat) :
    contract net dmin dmax guard =
      (if net.length - ((net.map (·.2.coord)).filter (isRemoved (steps net dmin dmax).1 (steps net dmin dmax).2)).length < guard
       then net
       else remap (((net.map (·.2.coord)).filter (isRemoved (steps net dmin dmax).1 (steps net dmin dmax).2)).foldl remove net)
          (relabel net (steps net dmin dmax).1 (steps net dmin dmax).2)) := rfl

/-- closed form of `contract_graph` on a well-formed map with positive steps: either nothing happens (guard) or the
    result is exactly the list of survivors, each under its shifted coordinate — no entry is overwritten -/
theorem contract_of_wf (net : Net) (hwf : WF net) (dmin dmax : Int) (guard : Nat) (hmin : 0 < dmin) (hmax : 0 < dmax) :
    contract net dmin dmax guard =
      (if (survivors net (decimation (shape net) dmin dmax).1 (decimation (shape net) dmin dmax).2).length < guard then net
       else relabelled net (shape net) (decimation (shape net) dmin dmax).1 (decimation (shape net) dmin dmax).2) := by
  rw [contract_unfold, survivors_length net hwf, removed_foldl_eq net hwf]
  obtain ⟨hx, hy⟩ := decimation_pos (shape net) dmin dmax hmin hmax
  unfold steps
  generalize (decimation (shape net) dmin dmax).1 = xd at *
  generalize (decimation (shape net) dmin dmax).2 = yd at *
  split
  · rfl
  · have hnd : (((survivors net xd yd).map (fun e => relabel net xd yd e.1 e.2)).map (·.coord)).Nodup := by
      rw [List.map_map]
      have : ((fun n : Node => n.coord) ∘ fun e : Coord × Node => relabel net xd yd e.1 e.2)
          = (fun e : Coord × Node => shift (shape net) xd yd e.1) := rfl
      rw [this]
      have hk : (keys (survivors net xd yd)).Nodup := by
        rw [keys_survivors]; exact List.Pairwise.filter _ hwf.nodup
      have : (survivors net xd yd).map (fun e => shift (shape net) xd yd e.1)
          = (keys (survivors net xd yd)).map (shift (shape net) xd yd) := by
        unfold keys; rw [List.map_map]; rfl
      rw [this]
      apply nodup_map_of_inj_on _ _ _ hk
      intro a ha b hb hab
      rw [keys_survivors, List.mem_filter] at ha hb
      exact shift_injective (shape net) xd yd hx hy a b (by simpa using ha.2) (by simpa using hb.2) hab
    rw [remap_of_nodup _ _ hnd]
    unfold relabelled
    rw [← List.map_reverse, ← List.map_reverse, List.map_map]
    rfl

theorem length_relabelled (net : Net) (sh : (Int × Int) × (Int × Int)) (xd yd : Int) :
    (relabelled net sh xd yd).length = (survivors net xd yd).length := by
  simp [relabelled]

theorem keys_relabelled (net : Net) (sh : (Int × Int) × (Int × Int)) (xd yd : Int) :
    keys (relabelled net sh xd yd) = ((keys (survivors net xd yd)).map (shift sh xd yd)).reverse := by
  unfold relabelled keys
  rw [List.map_reverse, List.map_map, List.map_map]
  rfl

/-! ### the three size statements -/

/-- **`compact_keeps_count`**: when the guard lets the contraction proceed, the map has exactly as many nodes as survived
    the decimation — none is lost to a coordinate collision -/
theorem compact_keeps_count (net : Net) (hwf : WF net) (dmin dmax : Int) (guard : Nat) (hmin : 0 < dmin) (hmax : 0 < dmax)
    (hgo : ¬ (survivors net (decimation (shape net) dmin dmax).1 (decimation (shape net) dmin dmax).2).length < guard) :
    (contract net dmin dmax guard).length =
      (survivors net (decimation (shape net) dmin dmax).1 (decimation (shape net) dmin dmax).2).length := by
  rw [contract_of_wf net hwf dmin dmax guard hmin hmax, if_neg hgo, length_relabelled]

/-- **`compact_never_grows`** (no hypothesis at all: any map, any steps, any guard) -/
theorem compact_never_grows (net : Net) (dmin dmax : Int) (guard : Nat) :
    (contract net dmin dmax guard).length ≤ net.length := by
  rw [contract_unfold]
  split
  · exact Nat.le_refl _
  · refine Nat.le_trans (length_remap_le _ _) ?_
    rw [foldl_remove_eq_filter]
    exact List.length_filter_le _ _

/-- **`compact_leaves_ge_4`** (with the guard as a parameter): at least `min guard size` nodes are left -/
theorem compact_leaves_ge (net : Net) (hwf : WF net) (dmin dmax : Int) (guard : Nat) (hmin : 0 < dmin) (hmax : 0 < dmax) :
    min guard net.length ≤ (contract net dmin dmax guard).length := by
  rw [contract_of_wf net hwf dmin dmax guard hmin hmax]
  split
  · exact Nat.min_le_right _ _
  · rw [length_relabelled]; omega

/-- well-formedness is kept by a contraction (whatever the steps are) -/
theorem wf_contract (net : Net) (hwf : WF net) (dmin dmax : Int) (guard : Nat) : WF (contract net dmin dmax guard) := by
  rw [contract_unfold]
  split
  · exact hwf
  · exact wf_remap _ _

/-- capacity and dimension are kept: surviving nodes keep their storage and weights -/
theorem bounded_contract (cap dim : Nat) (net : Net) (hwf : WF net) (hb : Bounded cap dim net)
    (dmin dmax : Int) (guard : Nat) (hmin : 0 < dmin) (hmax : 0 < dmax) :
    Bounded cap dim (contract net dmin dmax guard) := by
  rw [contract_of_wf net hwf dmin dmax guard hmin hmax]
  split
  · exact hb
  · intro e he
    unfold relabelled at he
    rw [List.mem_reverse, List.mem_map] at he
    obtain ⟨e0, he0, rfl⟩ := he
    unfold survivors at he0
    exact hb e0 (List.mem_filter.mp he0).1

/-! ### the contraction against its specification -/

/-- all coordinates are `i32` values (what the fold of `get_network_shape` silently assumes) -/
def InRange (ks : List Coord) : Prop :=
  ∀ c ∈ ks, i32Min ≤ c.1 ∧ c.1 ≤ i32Max ∧ i32Min ≤ c.2 ∧ c.2 ≤ i32Max

def shapeStep (s : (Int × Int) × (Int × Int)) (c : Coord) : (Int × Int) × (Int × Int) :=
  ((min s.1.1 c.1, max s.1.2 c.1), (min s.2.1 c.2, max s.2.2 c.2))

theorem foldl_shapeStep (ks : List Coord) (s : (Int × Int) × (Int × Int)) :
    ks.foldl shapeStep s =
      ((listMin (ks.map (·.1)) s.1.1, listMax (ks.map (·.1)) s.1.2),
       (listMin (ks.map (·.2)) s.2.1, listMax (ks.map (·.2)) s.2.2)) := by
  induction ks generalizing s with
  | nil => rfl
  | cons c rest ih =>
    simp only [List.foldl_cons, ih, List.map_cons, listMin, listMax, shapeStep]

/-- `get_network_shape` is the extent of the coordinate set (non-empty map, `i32` coordinates) -/
theorem shape_eq_extent (net : Net) (hne : net ≠ []) (hr : InRange (keys net)) : shape net = extent (keys net) := by
  cases net with
  | nil => exact absurd rfl hne
  | cons e rest =>
    have h0 := hr e.1 (by simp [keys])
    unfold i32Min i32Max at h0
    show (keys (e :: rest)).foldl shapeStep ((i32Max, i32Min), (i32Max, i32Min)) = _
    simp only [keys, List.map_cons, List.foldl_cons, extent]
    rw [foldl_shapeStep]
    have e1 : min i32Max e.1.1 = e.1.1 := by unfold i32Max; omega
    have e2 : max i32Min e.1.1 = e.1.1 := by unfold i32Min; omega
    have e3 : min i32Max e.1.2 = e.1.2 := by unfold i32Max; omega
    have e4 : max i32Min e.1.2 = e.1.2 := by unfold i32Min; omega
    simp only [shapeStep, e1, e2, e3, e4]

theorem specKeep_eq (xd yd : Nat) (c : Coord) :
    (decide (c.1 % (xd : Int) ≠ 0) && decide (c.2 % (yd : Int) ≠ 0)) = !isRemoved xd yd c := by
  cases hr : isRemoved (xd : Int) (yd : Int) c
  · have := (not_isRemoved_iff _ _ _).mp hr
    rw [tmod_ne_zero_iff, tmod_ne_zero_iff] at this
    simp [this.1, this.2]
  · simp only [Bool.not_true, Bool.and_eq_false_iff, decide_eq_false_iff_not, Decidable.not_not]
    unfold isRemoved at hr
    simp only [Bool.or_eq_true, beq_iff_eq] at hr
    rcases hr with h | h
    · left; exact Int.emod_eq_zero_of_dvd (Int.dvd_of_tmod_eq_zero h)
    · right; exact Int.emod_eq_zero_of_dvd (Int.dvd_of_tmod_eq_zero h)

/-- **the model of `contract_graph` meets the specification**: on a well-formed, non-empty map with `i32` coordinates and
    positive steps, the coordinates after the contraction are (a rearrangement of) `specContract` applied to the
    coordinates before: rows/columns at multiples of the step disappear, the others are renumbered consecutively from the
    deleted centre and recentred; nothing happens when fewer than `guard` nodes would remain -/
theorem contract_keys_perm_spec (net : Net) (hwf : WF net) (hne : net ≠ []) (hr : InRange (keys net))
    (dmin dmax : Nat) (guard : Nat) (hmin : 0 < dmin) (hmax : 0 < dmax) :
    (keys (contract net dmin dmax guard)).Perm (specContract (keys net) dmin dmax guard) := by
  rw [contract_of_wf net hwf dmin dmax guard (by omega) (by omega)]
  rw [shape_eq_extent net hne hr]
  unfold specContract
  simp only
  -- the steps chosen by the code and by the specification coincide
  have hd : decimation (extent (keys net)) (dmin : Int) (dmax : Int) =
      (((if (extent (keys net)).1.2 - (extent (keys net)).1.1 > (extent (keys net)).2.2 - (extent (keys net)).2.1
          then dmin else dmax : Nat) : Int),
       ((if (extent (keys net)).2.2 - (extent (keys net)).2.1 > (extent (keys net)).1.2 - (extent (keys net)).1.1
          then dmin else dmax : Nat) : Int)) := by
    unfold decimation
    simp only
    split <;> split <;> (try split) <;> first | rfl | omega
  rw [hd]
  simp only
  generalize (if (extent (keys net)).1.2 - (extent (keys net)).1.1 > (extent (keys net)).2.2 - (extent (keys net)).2.1
      then dmin else dmax : Nat) = xd
  generalize (if (extent (keys net)).2.2 - (extent (keys net)).2.1 > (extent (keys net)).1.2 - (extent (keys net)).1.1
      then dmin else dmax : Nat) = yd
  have hkeep : (keys net).filter (fun c => decide (c.1 % (xd : Int) ≠ 0) && decide (c.2 % (yd : Int) ≠ 0))
      = keys (survivors net xd yd) := by
    rw [keys_survivors]
    apply List.filter_congr
    intro c _
    exact specKeep_eq xd yd c
  rw [hkeep]
  have hlen : (keys (survivors net xd yd)).length = (survivors net xd yd).length := by simp [keys]
  rw [hlen]
  split
  · exact List.Perm.refl _
  · rw [keys_relabelled]
    refine List.Perm.trans (List.reverse_perm _) ?_
    apply List.Perm.of_eq
    apply List.map_congr_left
    intro c hc
    rw [keys_survivors, List.mem_filter] at hc
    have hs : isRemoved xd yd c = false := by simpa using hc.2
    have hnz := (not_isRemoved_iff _ _ _).mp hs
    have hc1 : c.1 ≠ 0 := by intro h; rw [h] at hnz; simp at hnz
    have hc2 : c.2 ≠ 0 := by intro h; rw [h] at hnz; simp at hnz
    rw [shift_eq, remap1_eq_specPos _ _ _ xd hc1, remap1_eq_specPos _ _ _ yd hc2]

end C19
