import VrpModel.C19
/-!
# C19 — the association-list model of the node hash map: lookup, insert, remove, remap
-/
set_option linter.unusedSimpArgs false
set_option linter.unusedVariables false
namespace C19

/-- the invariant of the coordinate layer: one entry per coordinate, and every node knows its own coordinate -/
structure WF (net : Net) : Prop where
  nodup : (keys net).Nodup
  keyEq : ∀ e ∈ net, e.2.coord = e.1

/-- capacity and dimension of every node -/
def Bounded (cap dim : Nat) (net : Net) : Prop := ∀ e ∈ net, e.2.held ≤ cap ∧ e.2.wdim = dim

/-! ### find -/

theorem find_cons (k : Coord) (n : Node) (rest : Net) (c : Coord) :
    find ((k, n) :: rest) c = if k = c then some n else find rest c := rfl

theorem find_eq_none_iff (net : Net) (c : Coord) : find net c = none ↔ c ∉ keys net := by
  induction net with
  | nil => simp [find, keys]
  | cons e rest ih =>
    obtain ⟨k, n⟩ := e
    rw [find_cons]
    by_cases h : k = c
    · simp [h, keys]
    · simp only [if_neg h, ih, keys, List.map_cons, List.mem_cons, not_or]
      constructor
      · intro h2; exact ⟨fun h3 => h h3.symm, h2⟩
      · intro h2; exact h2.2

theorem find_some_mem (net : Net) (c : Coord) (n : Node) (h : find net c = some n) : (c, n) ∈ net := by
  induction net with
  | nil => simp [find] at h
  | cons e rest ih =>
    obtain ⟨k, m⟩ := e
    rw [find_cons] at h
    by_cases hk : k = c
    · simp [hk] at h; simp [hk, h]
    · simp [hk] at h; exact List.mem_cons_of_mem _ (ih h)

theorem find_of_mem (net : Net) (c : Coord) (n : Node) (hnd : (keys net).Nodup) (h : (c, n) ∈ net) :
    find net c = some n := by
  induction net with
  | nil => simp at h
  | cons e rest ih =>
    obtain ⟨k, m⟩ := e
    rw [find_cons]
    simp only [keys, List.map_cons, List.nodup_cons] at hnd
    rcases List.mem_cons.mp h with heq | hmem
    · simp only [Prod.mk.injEq] at heq; simp [heq.1, heq.2]
    · have hk : k ≠ c := by
        intro hk; subst hk
        exact hnd.1 (List.mem_map.mpr ⟨(k, n), hmem, rfl⟩)
      simp only [if_neg hk]
      exact ih hnd.2 hmem

/-- **lookup by coordinate finds exactly that node**: the node returned for `c` is the one stored under `c`, and a node is
    returned iff `c` is a coordinate of the map -/
theorem find_exact (net : Net) (hnd : (keys net).Nodup) (c : Coord) (n : Node) :
    find net c = some n ↔ (c, n) ∈ net :=
  ⟨find_some_mem net c n, find_of_mem net c n hnd⟩

theorem find_coord (net : Net) (hwf : WF net) (c : Coord) (n : Node) (h : find net c = some n) : n.coord = c :=
  hwf.keyEq _ (find_some_mem net c n h)

theorem find_isSome_iff (net : Net) (c : Coord) : (find net c).isSome ↔ c ∈ keys net := by
  cases hf : find net c with
  | none => simp [(find_eq_none_iff net c).mp hf]
  | some n =>
    simp only [Option.isSome_some, true_iff]
    exact List.mem_map.mpr ⟨(c, n), find_some_mem net c n hf, rfl⟩

/-! ### remove / insert -/

theorem keys_remove (net : Net) (c : Coord) : keys (remove net c) = (keys net).filter (fun k => decide (k ≠ c)) := by
  unfold keys remove
  rw [List.filter_map]
  rfl

theorem not_mem_keys_remove (net : Net) (c : Coord) : c ∉ keys (remove net c) := by
  rw [keys_remove]; simp

theorem mem_keys_remove (net : Net) (c k : Coord) : k ∈ keys (remove net c) ↔ k ∈ keys net ∧ k ≠ c := by
  rw [keys_remove]; simp

theorem nodup_remove (net : Net) (c : Coord) (h : (keys net).Nodup) : (keys (remove net c)).Nodup := by
  rw [keys_remove]; exact List.Pairwise.filter _ h

theorem remove_of_not_mem (net : Net) (c : Coord) (h : c ∉ keys net) : remove net c = net := by
  unfold remove
  rw [List.filter_eq_self]
  intro e he
  have : e.1 ≠ c := by
    intro heq; exact h (List.mem_map.mpr ⟨e, he, heq⟩)
  simp [this]

theorem length_remove_le (net : Net) (c : Coord) : (remove net c).length ≤ net.length :=
  List.length_filter_le _ _

theorem mem_remove (net : Net) (c : Coord) (e : Coord × Node) : e ∈ remove net c ↔ e ∈ net ∧ e.1 ≠ c := by
  unfold remove; simp

/-- **find after remove** -/
theorem find_remove_self (net : Net) (c : Coord) : find (remove net c) c = none :=
  (find_eq_none_iff _ _).mpr (not_mem_keys_remove net c)

theorem find_remove_other (net : Net) (c c' : Coord) (h : c' ≠ c) : find (remove net c) c' = find net c' := by
  induction net with
  | nil => rfl
  | cons e rest ih =>
    obtain ⟨k, n⟩ := e
    unfold remove at ih ⊢
    simp only [List.filter_cons]
    by_cases hk : k = c
    · subst hk
      have : ¬ (k = c') := fun h2 => h h2.symm
      simp only [ne_eq, not_true_eq_false, decide_false, Bool.false_eq_true, if_false]
      rw [find_cons, if_neg this]
      exact ih
    · simp only [ne_eq, hk, not_false_eq_true, decide_true, if_true, find_cons, ih]

/-- **find after insert** -/
theorem find_insert_self (net : Net) (c : Coord) (n : Node) : find (insertKV net c n) c = some n := by
  simp [insertKV, find_cons]

theorem find_insert_other (net : Net) (c c' : Coord) (n : Node) (h : c' ≠ c) :
    find (insertKV net c n) c' = find net c' := by
  have : ¬ (c = c') := fun h2 => h h2.symm
  simp [insertKV, find_cons, this, find_remove_other net c c' h]

theorem keys_insertKV (net : Net) (c : Coord) (n : Node) : keys (insertKV net c n) = c :: keys (remove net c) := rfl

theorem mem_keys_insertKV (net : Net) (c k : Coord) (n : Node) :
    k ∈ keys (insertKV net c n) ↔ k = c ∨ k ∈ keys net := by
  rw [keys_insertKV, List.mem_cons, mem_keys_remove]
  by_cases h : k = c <;> simp [h]

/-- `key_eq_node_coordinate` and uniqueness are **preserved by insert** (under the node's own coordinate) -/
theorem wf_insertKV (net : Net) (c : Coord) (n : Node) (hwf : WF net) (hn : n.coord = c) : WF (insertKV net c n) := by
  constructor
  · rw [keys_insertKV, List.nodup_cons]
    exact ⟨not_mem_keys_remove net c, nodup_remove net c hwf.nodup⟩
  · intro e he
    rcases List.mem_cons.mp he with heq | hmem
    · subst heq; exact hn
    · exact hwf.keyEq e ((mem_remove net c e).mp hmem).1

/-- … and **by remove** -/
theorem wf_remove (net : Net) (c : Coord) (hwf : WF net) : WF (remove net c) :=
  ⟨nodup_remove net c hwf.nodup, fun e he => hwf.keyEq e ((mem_remove net c e).mp he).1⟩

theorem length_insertKV_le (net : Net) (c : Coord) (n : Node) : (insertKV net c n).length ≤ net.length + 1 := by
  simp only [insertKV, List.length_cons]
  have := length_remove_le net c
  omega

theorem insertKV_of_not_mem (net : Net) (c : Coord) (n : Node) (h : c ∉ keys net) : insertKV net c n = (c, n) :: net := by
  simp [insertKV, remove_of_not_mem net c h]

theorem bounded_insertKV (cap dim : Nat) (net : Net) (c : Coord) (n : Node) (hb : Bounded cap dim net)
    (hn : n.held ≤ cap ∧ n.wdim = dim) : Bounded cap dim (insertKV net c n) := by
  intro e he
  rcases List.mem_cons.mp he with heq | hmem
  · subst heq; exact hn
  · exact hb e ((mem_remove net c e).mp hmem).1

/-! ### remap -/

def reinsert (acc : Net) (n : Node) : Net := insertKV acc n.coord n

theorem remap_eq (net : Net) (f : Coord → Node → Node) :
    remap net f = (net.map (fun e => f e.1 e.2)).foldl reinsert [] := rfl

theorem wf_foldl_reinsert (ns : List Node) (acc : Net) (h : WF acc) : WF (ns.foldl reinsert acc) := by
  induction ns generalizing acc with
  | nil => exact h
  | cons n rest ih => exact ih _ (wf_insertKV acc n.coord n h rfl)

/-- **`key_eq_node_coordinate` and uniqueness hold after ANY remap** (nodes are re-inserted under their own coordinate) -/
theorem wf_remap (net : Net) (f : Coord → Node → Node) : WF (remap net f) :=
  wf_foldl_reinsert _ [] ⟨by simp [keys], by simp⟩

theorem length_foldl_reinsert_le (ns : List Node) (acc : Net) : (ns.foldl reinsert acc).length ≤ acc.length + ns.length := by
  induction ns generalizing acc with
  | nil => simp
  | cons n rest ih =>
    have h1 := ih (reinsert acc n)
    have h2 := length_insertKV_le acc n.coord n
    simp only [List.foldl_cons, List.length_cons]
    unfold reinsert at h1 ⊢
    omega

/-- a remap never creates nodes -/
theorem length_remap_le (net : Net) (f : Coord → Node → Node) : (remap net f).length ≤ net.length := by
  have := length_foldl_reinsert_le (net.map (fun e => f e.1 e.2)) []
  simpa [remap_eq] using this

theorem foldl_reinsert_fresh (ns : List Node) (acc : Net)
    (hfresh : ∀ n ∈ ns, n.coord ∉ keys acc) (hnd : (ns.map (·.coord)).Nodup) :
    ns.foldl reinsert acc = (ns.reverse.map (fun n => (n.coord, n))) ++ acc := by
  induction ns generalizing acc with
  | nil => simp
  | cons n rest ih =>
    simp only [List.map_cons, List.nodup_cons] at hnd
    have h0 : n.coord ∉ keys acc := hfresh n (List.mem_cons_self ..)
    have hstep : reinsert acc n = (n.coord, n) :: acc := insertKV_of_not_mem acc n.coord n h0
    simp only [List.foldl_cons, hstep]
    rw [ih]
    · simp
    · intro m hm
      simp only [keys, List.map_cons, List.mem_cons, not_or]
      constructor
      · intro heq; exact hnd.1 (List.mem_map.mpr ⟨m, hm, heq⟩)
      · exact hfresh m (List.mem_cons_of_mem _ hm)
    · exact hnd.2

/-- with pairwise different new coordinates a remap is a plain relabelling: nothing is overwritten -/
theorem remap_of_nodup (net : Net) (f : Coord → Node → Node)
    (hnd : ((net.map (fun e => f e.1 e.2)).map (·.coord)).Nodup) :
    remap net f = ((net.map (fun e => f e.1 e.2)).reverse.map (fun n => (n.coord, n))) := by
  rw [remap_eq, foldl_reinsert_fresh _ [] (by simp [keys]) hnd]; simp

theorem nodup_map_of_inj_on {α β : Type} (f : α → β) (l : List α)
    (hinj : ∀ a ∈ l, ∀ b ∈ l, f a = f b → a = b) (hnd : l.Nodup) : (l.map f).Nodup := by
  induction l with
  | nil => simp
  | cons x rest ih =>
    simp only [List.nodup_cons] at hnd
    simp only [List.map_cons, List.nodup_cons]
    constructor
    · intro hmem
      obtain ⟨y, hy, hxy⟩ := List.mem_map.mp hmem
      have := hinj y (List.mem_cons_of_mem _ hy) x (List.mem_cons_self ..) hxy
      subst this
      exact hnd.1 hy
    · exact ih (fun a ha b hb => hinj a (List.mem_cons_of_mem _ ha) b (List.mem_cons_of_mem _ hb)) hnd.2

/-! ### removing a list of coordinates -/

theorem foldl_remove_eq_filter (cs : List Coord) (net : Net) :
    cs.foldl remove net = net.filter (fun e => decide (e.1 ∉ cs)) := by
  induction cs generalizing net with
  | nil => simp only [List.foldl_nil, List.not_mem_nil, not_false_eq_true, decide_true]; exact (List.filter_eq_self.mpr (fun _ _ => rfl)).symm
  | cons c rest ih =>
    simp only [List.foldl_cons]
    rw [ih]
    unfold remove
    rw [List.filter_filter]
    apply List.filter_congr
    intro e _
    by_cases h1 : e.1 = c <;> by_cases h2 : e.1 ∈ rest <;> simp [h1, h2]

theorem length_filter_add_length_filter_not {α : Type} (p : α → Bool) (l : List α) :
    (l.filter p).length + (l.filter (fun a => !p a)).length = l.length := by
  induction l with
  | nil => rfl
  | cons x rest ih =>
    simp only [List.filter_cons]
    cases hp : p x <;> simp [hp] <;> omega

end C19
