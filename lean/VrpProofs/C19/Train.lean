import VrpProofs.C19.Map
/-!
# C19 — growth and training on the coordinate layer
-/
set_option linter.unusedSimpArgs false
set_option linter.unusedVariables false
namespace C19

/-! ### growth targets -/

/-- **`grow_targets_fresh`**: only coordinates which are absent from the map are inserted by growth -/
theorem growTargets_fresh (net : Net) (c : Coord) : ∀ t ∈ growTargets net c, t ∉ keys net := by
  intro t ht
  unfold growTargets at ht
  have := (List.mem_filter.mp ht).2
  simp only [Option.isNone_iff_eq_none] at this
  exact (find_eq_none_iff net t).mp this

theorem addC_injective (c a b : Coord) (h : addC c a = addC c b) : a = b := by
  unfold addC at h
  simp only [Prod.mk.injEq] at h
  exact Prod.ext (by omega) (by omega)

theorem growTargets_nodup (net : Net) (c : Coord) : (growTargets net c).Nodup := by
  unfold growTargets
  apply List.Pairwise.filter
  apply nodup_map_of_inj_on
  · intro a _ b _ h; exact addC_injective c a b h
  · decide

/-- every target is a main-direction neighbour of the grown node -/
theorem growTargets_adjacent (net : Net) (c : Coord) : ∀ t ∈ growTargets net c, ∃ o ∈ mainDirs, t = addC c o := by
  intro t ht
  unfold growTargets at ht
  obtain ⟨o, ho, rfl⟩ := List.mem_map.mp (List.mem_filter.mp ht).1
  exact ⟨o, ho, rfl⟩

theorem isBoundary_iff (net : Net) (c : Coord) : isBoundary net c = true ↔ growTargets net c ≠ [] := by
  unfold isBoundary growTargets
  rw [List.any_eq_true, Ne, List.filter_eq_nil_iff]
  constructor
  · rintro ⟨o, ho, h⟩ hall
    exact hall (addC c o) (List.mem_map.mpr ⟨o, ho, rfl⟩) h
  · intro h
    apply Classical.byContradiction
    intro hno
    apply h
    intro t ht hnone
    obtain ⟨o, ho, rfl⟩ := List.mem_map.mp ht
    exact hno ⟨o, ho, hnone⟩

/-! ### inserting a list of fresh coordinates -/

theorem wf_netInsert (dim : Nat) (net : Net) (c : Coord) (h : WF net) : WF (netInsert dim net c) :=
  wf_insertKV net c _ h rfl

theorem bounded_netInsert (cap dim : Nat) (net : Net) (c : Coord) (h : Bounded cap dim net) :
    Bounded cap dim (netInsert dim net c) :=
  bounded_insertKV cap dim net c _ h ⟨Nat.zero_le _, rfl⟩

theorem wf_foldl_netInsert (dim : Nat) (ts : List Coord) (net : Net) (h : WF net) : WF (ts.foldl (netInsert dim) net) := by
  induction ts generalizing net with
  | nil => exact h
  | cons t rest ih => exact ih _ (wf_netInsert dim net t h)

theorem bounded_foldl_netInsert (cap dim : Nat) (ts : List Coord) (net : Net) (h : Bounded cap dim net) :
    Bounded cap dim (ts.foldl (netInsert dim) net) := by
  induction ts generalizing net with
  | nil => exact h
  | cons t rest ih => exact ih _ (bounded_netInsert cap dim net t h)

theorem find_foldl_netInsert_other (dim : Nat) (ts : List Coord) (net : Net) (k : Coord) (hk : k ∉ ts) :
    find (ts.foldl (netInsert dim) net) k = find net k := by
  induction ts generalizing net with
  | nil => rfl
  | cons t rest ih =>
    simp only [List.mem_cons, not_or] at hk
    simp only [List.foldl_cons]
    rw [ih _ hk.2]
    exact find_insert_other net t k _ hk.1

theorem mem_keys_foldl_netInsert (dim : Nat) (ts : List Coord) (net : Net) (k : Coord) :
    k ∈ keys (ts.foldl (netInsert dim) net) ↔ k ∈ keys net ∨ k ∈ ts := by
  induction ts generalizing net with
  | nil => simp
  | cons t rest ih =>
    simp only [List.foldl_cons, ih, List.mem_cons]
    unfold netInsert
    rw [mem_keys_insertKV]
    constructor
    · rintro ((h | h) | h)
      · exact Or.inr (Or.inl h)
      · exact Or.inl h
      · exact Or.inr (Or.inr h)
    · rintro (h | h | h)
      · exact Or.inl (Or.inr h)
      · exact Or.inl (Or.inl h)
      · exact Or.inr h

theorem length_foldl_netInsert (dim : Nat) (ts : List Coord) (net : Net)
    (hfresh : ∀ t ∈ ts, t ∉ keys net) (hnd : ts.Nodup) :
    (ts.foldl (netInsert dim) net).length = net.length + ts.length := by
  induction ts generalizing net with
  | nil => rfl
  | cons t rest ih =>
    simp only [List.nodup_cons] at hnd
    simp only [List.foldl_cons, List.length_cons]
    rw [ih]
    · unfold netInsert
      rw [insertKV_of_not_mem net t _ (hfresh t (List.mem_cons_self ..))]
      simp only [List.length_cons]; omega
    · intro u hu
      unfold netInsert
      rw [mem_keys_insertKV, not_or]
      exact ⟨fun h => hnd.1 (h ▸ hu), hfresh u (List.mem_cons_of_mem _ hu)⟩
    · exact hnd.2

/-! ### `Network::update` -/

theorem update_no_growth (dim : Nat) (net : Net) (h : Hit) : update dim net h false = net := by
  unfold update
  split
  · rfl
  · simp

theorem wf_update (dim : Nat) (net : Net) (h : Hit) (isNew : Bool) (hwf : WF net) : WF (update dim net h isNew) := by
  unfold update
  split
  · exact hwf
  · split
    · exact wf_foldl_netInsert dim _ net hwf
    · exact hwf

theorem bounded_update (cap dim : Nat) (net : Net) (h : Hit) (isNew : Bool) (hb : Bounded cap dim net) :
    Bounded cap dim (update dim net h isNew) := by
  unfold update
  split
  · exact hb
  · split
    · exact bounded_foldl_netInsert cap dim _ net hb
    · exact hb

/-- **growth never touches an existing node**: whatever was found under a coordinate before is found there afterwards
    (`insert` is only ever called with absent coordinates, so nothing is overwritten) -/
theorem update_keeps_nodes (dim : Nat) (net : Net) (h : Hit) (isNew : Bool) (k : Coord) (n : Node)
    (hk : find net k = some n) : find (update dim net h isNew) k = some n := by
  unfold update
  split
  · exact hk
  · rename_i node hnode
    split
    · rw [find_foldl_netInsert_other]
      · exact hk
      · intro hmem
        have := growTargets_fresh net node.coord k hmem
        have hin : k ∈ keys net := (find_isSome_iff net k).mp (by simp [hk])
        exact this hin
    · exact hk

/-- the map grows by exactly the number of absent main-direction neighbours when it grows -/
theorem update_length (dim : Nat) (net : Net) (h : Hit) (isNew : Bool) :
    (update dim net h isNew).length = net.length ∨
    ∃ node, find net h.bmu = some node ∧
      (update dim net h isNew).length = net.length + (growTargets net node.coord).length := by
  unfold update
  split
  · exact Or.inl rfl
  · rename_i node hnode
    split
    · right
      exact ⟨node, hnode, length_foldl_netInsert dim _ net (growTargets_fresh net node.coord) (growTargets_nodup net node.coord)⟩
    · exact Or.inl rfl

/-- every coordinate of the map after `update` was there before or is a main-direction neighbour of the updated unit -/
theorem update_new_keys_adjacent (dim : Nat) (net : Net) (h : Hit) (isNew : Bool) (k : Coord)
    (hk : k ∈ keys (update dim net h isNew)) :
    k ∈ keys net ∨ ∃ node, find net h.bmu = some node ∧ ∃ o ∈ mainDirs, k = addC node.coord o := by
  unfold update at hk
  split at hk
  · exact Or.inl hk
  · rename_i node hnode
    split at hk
    · rcases (mem_keys_foldl_netInsert dim _ net k).mp hk with h1 | h2
      · exact Or.inl h1
      · exact Or.inr ⟨node, hnode, growTargets_adjacent net node.coord k h2⟩
    · exact Or.inl hk

theorem update_keys_superset (dim : Nat) (net : Net) (h : Hit) (isNew : Bool) (k : Coord) (hk : k ∈ keys net) :
    k ∈ keys (update dim net h isNew) := by
  obtain ⟨n, hn⟩ := Option.isSome_iff_exists.mp ((find_isSome_iff net k).mpr hk)
  exact (find_isSome_iff _ k).mp (by simp [update_keeps_nodes dim net h isNew k n hn])

/-! ### `modify`, `train_batch` -/

theorem keys_modify (net : Net) (c : Coord) (f : Node → Node) : keys (modify net c f) = keys net := by
  unfold keys modify
  rw [List.map_map]
  apply List.map_congr_left
  intro e _
  simp only [Function.comp]
  split <;> rfl

theorem wf_modify (net : Net) (c : Coord) (f : Node → Node) (hf : ∀ n, (f n).coord = n.coord) (hwf : WF net) :
    WF (modify net c f) := by
  constructor
  · rw [keys_modify]; exact hwf.nodup
  · intro e he
    unfold modify at he
    obtain ⟨e0, he0, rfl⟩ := List.mem_map.mp he
    split
    · simp only [hf]; exact hwf.keyEq e0 he0
    · exact hwf.keyEq e0 he0

theorem bounded_modify (cap dim : Nat) (net : Net) (c : Coord) (f : Node → Node)
    (hf : ∀ n, (f n).held ≤ cap ∧ (f n).wdim = n.wdim) (hb : Bounded cap dim net) : Bounded cap dim (modify net c f) := by
  intro e he
  unfold modify at he
  obtain ⟨e0, he0, rfl⟩ := List.mem_map.mp he
  split
  · exact ⟨(hf e0.2).1, (hf e0.2).2.trans (hb e0 he0).2⟩
  · exact hb e0 he0

/-- **`node_storage_le_capacity`**: whatever sorting and de-duplication keep, a storage never holds more than its capacity -/
theorem storeAdd_le (cap : Nat) (n : Node) (kept : Nat) : (storeAdd cap n kept).held ≤ cap := by
  unfold storeAdd; exact Nat.min_le_left _ _

theorem wf_trainStep (cap dim : Nat) (isNew : Bool) (net : Net) (h : Hit) (hwf : WF net) : WF (trainStep cap dim isNew net h) :=
  wf_modify _ _ _ (fun _ => rfl) (wf_update dim net h isNew hwf)

theorem bounded_trainStep (cap dim : Nat) (isNew : Bool) (net : Net) (h : Hit) (hb : Bounded cap dim net) :
    Bounded cap dim (trainStep cap dim isNew net h) :=
  bounded_modify cap dim _ _ _ (fun n => ⟨storeAdd_le cap n h.kept, rfl⟩) (bounded_update cap dim net h isNew hb)

/-- **training keeps the map well formed** for every sequence of inputs, whatever the float-dependent decisions are -/
theorem wf_trainBatch (cap dim : Nat) (isNew : Bool) (net : Net) (hits : List Hit) (hwf : WF net) :
    WF (trainBatch cap dim isNew net hits) := by
  unfold trainBatch
  induction hits generalizing net with
  | nil => exact hwf
  | cons h rest ih => exact ih _ (wf_trainStep cap dim isNew net h hwf)

theorem bounded_trainBatch (cap dim : Nat) (isNew : Bool) (net : Net) (hits : List Hit) (hb : Bounded cap dim net) :
    Bounded cap dim (trainBatch cap dim isNew net hits) := by
  unfold trainBatch
  induction hits generalizing net with
  | nil => exact hb
  | cons h rest ih => exact ih _ (bounded_trainStep cap dim isNew net h hb)

/-- without growth (smoothing, re-training after a compaction) the coordinate set does not change at all -/
theorem keys_trainBatch_false (cap dim : Nat) (net : Net) (hits : List Hit) :
    keys (trainBatch cap dim false net hits) = keys net := by
  unfold trainBatch
  induction hits generalizing net with
  | nil => rfl
  | cons h rest ih =>
    simp only [List.foldl_cons]
    rw [ih]
    unfold trainStep
    rw [keys_modify, update_no_growth]

/-- `store_batch` only adds coordinates -/
theorem keys_trainBatch_superset (cap dim : Nat) (isNew : Bool) (net : Net) (hits : List Hit) (k : Coord) (hk : k ∈ keys net) :
    k ∈ keys (trainBatch cap dim isNew net hits) := by
  unfold trainBatch
  induction hits generalizing net with
  | nil => exact hk
  | cons h rest ih =>
    simp only [List.foldl_cons]
    apply ih
    unfold trainStep
    rw [keys_modify]
    exact update_keys_superset dim net h isNew k hk

theorem keys_drainAll (net : Net) : keys (drainAll net) = keys net := by
  unfold keys drainAll; rw [List.map_map]; rfl

theorem wf_drainAll (net : Net) (hwf : WF net) : WF (drainAll net) := by
  constructor
  · rw [keys_drainAll]; exact hwf.nodup
  · intro e he
    unfold drainAll at he
    obtain ⟨e0, he0, rfl⟩ := List.mem_map.mp he
    exact hwf.keyEq e0 he0

theorem bounded_drainAll (cap dim : Nat) (net : Net) (hb : Bounded cap dim net) : Bounded cap dim (drainAll net) := by
  intro e he
  unfold drainAll at he
  obtain ⟨e0, he0, rfl⟩ := List.mem_map.mp he
  exact ⟨Nat.zero_le _, (hb e0 he0).2⟩

/-- **smoothing keeps the coordinate set** (any number of rounds) and the map well formed -/
theorem keys_smooth (cap dim : Nat) (net : Net) (rounds : List (List Hit)) : keys (smooth cap dim net rounds) = keys net := by
  unfold smooth
  induction rounds generalizing net with
  | nil => rfl
  | cons r rest ih =>
    simp only [List.foldl_cons]
    rw [ih]
    unfold retrainOnce
    rw [keys_trainBatch_false, keys_drainAll]

theorem wf_smooth (cap dim : Nat) (net : Net) (rounds : List (List Hit)) (hwf : WF net) (hb : Bounded cap dim net) :
    WF (smooth cap dim net rounds) ∧ Bounded cap dim (smooth cap dim net rounds) := by
  unfold smooth
  induction rounds generalizing net with
  | nil => exact ⟨hwf, hb⟩
  | cons r rest ih =>
    simp only [List.foldl_cons]
    apply ih
    · exact wf_trainBatch _ _ _ _ _ (wf_drainAll net hwf)
    · exact bounded_trainBatch _ _ _ _ _ (bounded_drainAll cap dim net hb)

end C19
