import VrpModel.C20
import VrpProofs.C06
/-!
# C20 — the quoted insertion cost equals the realised objective change (additive objectives)

MODEL of the quote: `C06.costVector` (layers unassigned / tours / distance-or-cost, i.e.
`FeatureObjective::estimate` of `minimize_unassigned.rs`, `fleet_usage.rs`, `transport.rs::estimate_leg`).
SPEC of the objective values: `C20.fitnessOf`, recomputed from the bare tour.
Proved for tours of any length and every position: unassigned, tours, distance.
Partial: the combined cost objective (exact only without waiting) is decided by the oracle on the real
numbers, not by a theorem here.
-/
set_option linter.unusedSimpArgs false
set_option linter.unnecessarySimpa false

namespace C20
open Route C06

/-- location after serving `xs` from `l` -/
def lastLoc : List Act → Nat → Nat
  | [], l => l
  | a :: r, _ => lastLoc r a.loc

theorem after_fst (t : Nat → Nat → Int) (xs : List Act) (l : Nat) (dep : Int) :
    (after t xs l dep).1 = lastLoc xs l := by
  induction xs generalizing l dep with
  | nil => simp [after, lastLoc]
  | cons a r ih => rw [after, ih, lastLoc]

theorem totalDist_append (d : Nat → Nat → Int) (xs ys : List Act) (l : Nat) :
    totalDist d (xs ++ ys) l = totalDist d xs l + totalDist d ys (lastLoc xs l) := by
  induction xs generalizing l with
  | nil => simp [totalDist, lastLoc]
  | cons a r ih =>
    simp only [List.cons_append, totalDist, ih, lastLoc]
    omega

/-- **distance estimate is exact**: for a tour that already has jobs, the quoted distance change for
    inserting `x` at leg `i` (middle, before the arrival activity, or at an open end) is the change of
    the total distance recomputed from the bare tour -/
theorem distance_estimate_exact (c : Ctx) (i : Nat) (x : Act) (hi : i ≤ c.acts.length)
    (hne : c.tour.isEmpty = false) :
    estimateLeg c c.m.d i x =
      totalDist c.m.d (c.veh.full (insertAt c.acts i x)) c.veh.startLoc
        - totalDist c.m.d (c.veh.full c.acts) c.veh.startLoc := by
  unfold estimateLeg
  dsimp only
  rw [C06.full_insertAt c.veh c.acts i x hi]
  conv => rhs; rhs; rw [C06.full_split c.veh c.acts i hi]
  rw [totalDist_append, totalDist_append, after_fst]
  simp only [hne]
  cases hrest : (c.veh.full c.acts).drop i with
  | nil => simp [totalDist]; omega
  | cons nx r => simp [totalDist]; omega

/-- first job of a route: the quote is the whole distance of the new tour -/
theorem distance_estimate_first (c : Ctx) (x : Act) (he : c.tour = []) :
    estimateLeg c c.m.d 0 x = totalDist c.m.d (c.veh.full [x]) c.veh.startLoc := by
  have hacts : c.acts = [] := by simp [Ctx.acts, he]
  unfold estimateLeg
  dsimp only
  simp only [hacts, he, List.take_nil, after, List.isEmpty_nil, if_true]
  unfold Veh.full Veh.endActs
  cases c.veh.endAt with
  | none => simp [totalDist]
  | some p => simp [totalDist]

/-- **C20 for the model, distance goal**: every component of the quoted cost vector equals the
    change of the corresponding objective value recomputed from the tours (job counted as unassigned
    before, assigned after) — unassigned jobs, number of tours, total distance -/
theorem quote_exact_distance (c : Ctx) (i : Nat) (x : Act) (hi : i ≤ c.acts.length)
    (hobj : c.obj = .distance) :
    costVector c i x =
      List.zipWith (· - ·) (fitnessOf c (insertAt c.acts i x) 0) (fitnessOf c c.acts 1) := by
  have hins : (insertAt c.acts i x).isEmpty = false := by
    unfold insertAt; simp
  have hemp : c.acts.isEmpty = c.tour.isEmpty := by simp [Ctx.acts]
  unfold costVector fitnessOf transportFitness
  simp only [hobj, hins, List.zipWith_cons_cons, List.zipWith_nil_right]
  cases hte : c.tour.isEmpty with
  | true =>
    have he : c.tour = [] := List.isEmpty_iff.mp hte
    have hacts : c.acts = [] := by simp [Ctx.acts, he]
    have hi0 : i = 0 := by simpa [hacts] using hi
    subst hi0
    rw [distance_estimate_first c x he]
    simp [hacts, insertAt]
  | false =>
    rw [distance_estimate_exact c i x hi hte]
    simp [hemp, hte]

/-! ### non-vacuity -/
def exM : Mat := { n := 3, dur := [0, 5, 7, 5, 0, 3, 7, 3, 0], dist := [0, 5, 7, 5, 0, 3, 7, 3, 0] }
def exC : Ctx := { m := exM, veh := { startLoc := 0, earliest := 0, dep := 0, endAt := some (0, 100) }, cap := [5],
                   costs := ⟨10, 1, 1⟩, obj := .distance,
                   tour := [{ act := { loc := 1, s := 0, e := 50, dur := 1 }, dem := none }] }
-- inserting location 2 after the job: 0→1→2→0 = 15 against 0→1→0 = 10, quote +5, one job less unassigned
example : costVector exC 1 { loc := 2, s := 0, e := 50, dur := 0 } = [-1, 0, 5] := by decide

end C20
