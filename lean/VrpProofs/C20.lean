import VrpModel.C20
import VrpProofs.C06
/-!
# C20 — the quoted insertion cost equals the realised objective change (additive objectives)

MODEL of the quote: `C06.costVector` (layers unassigned / tours / distance-or-cost, i.e.
`FeatureObjective::estimate` of `minimize_unassigned.rs`, `fleet_usage.rs`, `transport.rs::estimate_leg`).
SPEC of the objective values: `C20.fitnessOf`, recomputed from the bare tour.
Proved for tours of any length and every position: unassigned, tours, distance.
Partial: the combined cost objective (exact only without waiting) is decided by the oracle on the real
numbers, not by a theorem here.
-/
set_option linter.unusedSimpArgs false
set_option linter.unnecessarySimpa false

namespace C20
open Route C06

/-- location after serving `xs` from `l` -/
def lastLoc : List Act → Nat → Nat
  | [], l => l
  | a :: r, _ => lastLoc r a.loc

theorem after_fst (t : Nat → Nat → Int) (xs : List Act) (l : Nat) (dep : Int) :
    (after t xs l dep).1 = lastLoc xs l := by
  induction xs generalizing l dep with
  | nil => simp [after, lastLoc]
  | cons a r ih => rw [after, ih, lastLoc]

theorem totalDist_append (d : Nat → Nat → Int) (xs ys : List Act) (l : Nat) :
    totalDist d (xs ++ ys) l = totalDist d xs l + totalDist d ys (lastLoc xs l) := by
  induction xs generalizing l with
  | nil => simp [totalDist, lastLoc]
  | cons a r ih =>
    simp only [List.cons_append, totalDist, ih, lastLoc]
    omega

/-- **distance estimate is exact**: for a tour that already has jobs, the quoted distance change for
    inserting `x` at leg `i` (middle, before the arrival activity, or at an open end) is the change of
    the total distance recomputed from the bare tour -/
theorem distance_estimate_exact (c : Ctx) (i : Nat) (x : Act) (hi : i ≤ c.acts.length)
    (hne : c.tour.isEmpty = false) :
    estimateLeg c c.m.d i x =
      totalDist c.m.d (c.veh.full (insertAt c.acts i x)) c.veh.startLoc
        - totalDist c.m.d (c.veh.full c.acts) c.veh.startLoc := by
  unfold estimateLeg
  dsimp only
  rw [C06.full_insertAt c.veh c.acts i x hi]
  conv => rhs; rhs; rw [C06.full_split c.veh c.acts i hi]
  rw [totalDist_append, totalDist_append, after_fst]
  simp only [hne]
  cases hrest : (c.veh.full c.acts).drop i with
  | nil => simp [totalDist]; omega
  | cons nx r => simp [totalDist]; omega

/-- first job of a route: the quote is the whole distance of the new tour -/
theorem distance_estimate_first (c : Ctx) (x : Act) (he : c.tour = []) :
    estimateLeg c c.m.d 0 x = totalDist c.m.d (c.veh.full [x]) c.veh.startLoc := by
  have hacts : c.acts = [] := by simp [Ctx.acts, he]
  unfold estimateLeg
  dsimp only
  simp only [hacts, he, List.take_nil, after, List.isEmpty_nil, if_true]
  unfold Veh.full Veh.endActs
  cases c.veh.endAt with
  | none => simp [totalDist]
  | some p => simp [totalDist]

/-- **C20 for the model, distance goal**: every component of the quoted cost vector equals the
    change of the corresponding objective value recomputed from the tours (job counted as unassigned
    before, assigned after) — unassigned jobs, number of tours, total distance -/
theorem quote_exact_distance (c : Ctx) (i : Nat) (x : Act) (hi : i ≤ c.acts.length)
    (hobj : c.obj = .distance) :
    costVector c i x =
      List.zipWith (· - ·) (fitnessOf c (insertAt c.acts i x) 0) (fitnessOf c c.acts 1) := by
  have hins : (insertAt c.acts i x).isEmpty = false := by
    unfold insertAt; simp
  have hemp : c.acts.isEmpty = c.tour.isEmpty := by simp [Ctx.acts]
  unfold costVector fitnessOf transportFitness
  simp only [hobj, hins, List.zipWith_cons_cons, List.zipWith_nil_right]
  cases hte : c.tour.isEmpty with
  | true =>
    have he : c.tour = [] := List.isEmpty_iff.mp hte
    have hacts : c.acts = [] := by simp [Ctx.acts, he]
    have hi0 : i = 0 := by simpa [hacts] using hi
    subst hi0
    rw [distance_estimate_first c x he]
    simp [hacts, insertAt]
  | false =>
    rw [distance_estimate_exact c i x hi hte]
    simp [hemp, hte]

/-! ## the cost objective: exact when nobody waits

`CostObjective::estimate_activity` prices waiting and its possible reduction heuristically, so with waiting the quote is
an estimate. Without waiting - in the tour as it is and in the tour with the job inserted - it is exact: distance and
duration both change by the detour, the duration also by the service time. -/

/-- nobody waits along the sequence: every arrival is at or after the start of the window -/
def noWait (t : Nat → Nat → Int) : List Act → Nat → Int → Bool
  | [], _, _ => true
  | a :: rest, l, dep => decide (a.s ≤ dep + t l a.loc) && noWait t rest a.loc (depOf a (dep + t l a.loc))

def durSum (xs : List Act) : Int := (xs.map (·.dur)).sum

theorem noWait_append (t : Nat → Nat → Int) (xs ys : List Act) (l : Nat) (dep : Int) :
    noWait t (xs ++ ys) l dep = (noWait t xs l dep && noWait t ys (after t xs l dep).1 (after t xs l dep).2) := by
  induction xs generalizing l dep with
  | nil => simp [noWait, after]
  | cons a r ih => simp only [List.cons_append, noWait, after, ih, Bool.and_assoc]

/-- without waiting the clock runs on travel and service only -/
theorem after_noWait (t : Nat → Nat → Int) (xs : List Act) (l : Nat) (dep : Int) (h : noWait t xs l dep = true) :
    (after t xs l dep).2 = dep + totalDist t xs l + durSum xs := by
  induction xs generalizing l dep with
  | nil => simp [after, totalDist, durSum]
  | cons a r ih =>
    simp only [noWait, Bool.and_eq_true, decide_eq_true_eq] at h
    rw [after, ih _ _ h.2]
    have hd : depOf a (dep + t l a.loc) = dep + t l a.loc + a.dur := by
      unfold depOf; rw [Int.max_eq_left h.1]
    simp only [hd, totalDist, durSum, List.map_cons, List.sum_cons]
    omega

theorem futureWaiting_noWait (t : Nat → Nat → Int) (xs : List Act) (l : Nat) (dep : Int) (h : noWait t xs l dep = true) :
    ∀ w ∈ futureWaiting xs (sched t xs l dep), w = 0 := by
  induction xs generalizing l dep with
  | nil => intro w hw; simp [futureWaiting] at hw
  | cons a r ih =>
    simp only [noWait, Bool.and_eq_true, decide_eq_true_eq] at h
    intro w hw
    simp only [sched, futureWaiting, List.mem_cons] at hw
    have iht := ih _ _ h.2
    rcases hw with rfl | hw
    · have h0 : (futureWaiting r (sched t r a.loc (depOf a (dep + t l a.loc)))).headD 0 = 0 := by
        cases hf : futureWaiting r (sched t r a.loc (depOf a (dep + t l a.loc))) with
        | nil => rfl
        | cons z zs => exact iht z (by simp [hf])
      rw [h0]
      have : max (a.s - (dep + t l a.loc)) 0 = 0 := by omega
      omega
    · exact iht w hw

/-- the leg estimate is exact for any additive metric (distance: `distance_estimate_exact`; here also the driving time) -/
theorem leg_estimate_exact (m : Nat → Nat → Int) (c : Ctx) (i : Nat) (x : Act) (hi : i ≤ c.acts.length)
    (hne : c.tour.isEmpty = false) :
    estimateLeg c m i x =
      totalDist m (c.veh.full (insertAt c.acts i x)) c.veh.startLoc
        - totalDist m (c.veh.full c.acts) c.veh.startLoc := by
  unfold estimateLeg
  dsimp only
  rw [C06.full_insertAt c.veh c.acts i x hi]
  conv => rhs; rhs; rw [C06.full_split c.veh c.acts i hi]
  rw [totalDist_append, totalDist_append, after_fst]
  simp only [hne]
  cases hrest : (c.veh.full c.acts).drop i with
  | nil => simp [totalDist]; omega
  | cons nx r => simp [totalDist]; omega

theorem durSum_append (xs ys : List Act) : durSum (xs ++ ys) = durSum xs + durSum ys := by
  simp [durSum, List.sum_append]

/-- **cost estimate, no waiting**: the quoted activity-level cost is the detour priced per distance plus the detour and
    the service priced per time -/
theorem cost_estimate_noWait (c : Ctx) (i : Nat) (x : Act) (hi : i ≤ c.acts.length)
    (hne : c.tour.isEmpty = false)
    (hold : noWait c.m.t (c.veh.full c.acts) c.veh.startLoc c.veh.dep = true)
    (hnew : noWait c.m.t (c.veh.full (insertAt c.acts i x)) c.veh.startLoc c.veh.dep = true) :
    estimateCostActivity c i x =
      estimateLeg c c.m.d i x * c.costs.perDist + (estimateLeg c c.m.t i x + x.dur) * c.costs.perTime := by
  rw [C06.full_insertAt c.veh c.acts i x hi, noWait_append] at hnew
  rw [C06.full_split c.veh c.acts i hi, noWait_append] at hold
  simp only [Bool.and_eq_true] at hnew hold
  have hfw := futureWaiting_noWait c.m.t (c.veh.full c.acts) c.veh.startLoc c.veh.dep
    (by rw [C06.full_split c.veh c.acts i hi, noWait_append]; simp [hold.1, hold.2])
  unfold estimateCostActivity estimateLeg
  dsimp only
  simp only [hne]
  cases hrest : (c.veh.full c.acts).drop i with
  | nil =>
    rw [hrest] at hnew
    simp only [noWait, Bool.and_eq_true, decide_eq_true_eq, Bool.and_true] at hnew
    have hx := hnew.2
    have : max (x.s - ((after c.m.t (c.acts.take i) c.veh.startLoc c.veh.dep).2 +
        c.m.t (after c.m.t (c.acts.take i) c.veh.startLoc c.veh.dep).1 x.loc)) 0 = 0 := by omega
    simp only [this, Int.add_mul, Int.zero_add, Bool.false_eq_true, if_false]
    omega
  | cons nx r =>
    rw [hrest] at hnew hold
    simp only [noWait, Bool.and_eq_true, decide_eq_true_eq] at hnew hold
    obtain ⟨_, hxs, hnxs, _⟩ := hnew
    obtain ⟨_, hnxo, _⟩ := hold
    have hdx : depOf x ((after c.m.t (c.acts.take i) c.veh.startLoc c.veh.dep).2 +
        c.m.t (after c.m.t (c.acts.take i) c.veh.startLoc c.veh.dep).1 x.loc)
        = (after c.m.t (c.acts.take i) c.veh.startLoc c.veh.dep).2 +
          c.m.t (after c.m.t (c.acts.take i) c.veh.startLoc c.veh.dep).1 x.loc + x.dur := by
      unfold depOf; rw [Int.max_eq_left hxs]
    rw [hdx] at hnxs ⊢
    -- the waiting the estimator may give back is zero: nobody waits in the tour as it is
    have hw0 : (if i < c.tour.length then (futureWaiting (c.veh.full c.acts)
        (sched c.m.t (c.veh.full c.acts) c.veh.startLoc c.veh.dep)).getD i 0 else 0) = 0 := by
      split
      · rw [List.getD_eq_getElem?_getD]
        cases hg : (futureWaiting (c.veh.full c.acts) (sched c.m.t (c.veh.full c.acts) c.veh.startLoc c.veh.dep))[i]? with
        | none => rfl
        | some w => exact hfw w (List.mem_of_getElem? hg)
      · rfl
    rw [hw0]
    have m1 : max (x.s - ((after c.m.t (c.acts.take i) c.veh.startLoc c.veh.dep).2 +
        c.m.t (after c.m.t (c.acts.take i) c.veh.startLoc c.veh.dep).1 x.loc)) 0 = 0 := by omega
    have m2 : max (nx.s - ((after c.m.t (c.acts.take i) c.veh.startLoc c.veh.dep).2 +
        c.m.t (after c.m.t (c.acts.take i) c.veh.startLoc c.veh.dep).1 x.loc + x.dur + c.m.t x.loc nx.loc)) 0 = 0 := by omega
    have m3 : max (nx.s - ((after c.m.t (c.acts.take i) c.veh.startLoc c.veh.dep).2 +
        c.m.t (after c.m.t (c.acts.take i) c.veh.startLoc c.veh.dep).1 nx.loc)) 0 = 0 := by omega
    have m4 : ∀ z : Int, min 0 (max 0 z) = 0 := by intro z; omega
    simp only [hdx, m1, m2, m3, m4, Int.zero_add, Int.zero_mul, Int.add_mul, Int.sub_mul, Bool.false_eq_true, if_false]
    omega

theorem durSum_full_insertAt (v : Veh) (jobs : List Act) (i : Nat) (x : Act) (hi : i ≤ jobs.length) :
    durSum (v.full (insertAt jobs i x)) = durSum (v.full jobs) + x.dur := by
  rw [C06.full_insertAt v jobs i x hi]
  conv => rhs; lhs; rw [C06.full_split v jobs i hi]
  simp only [durSum, List.map_append, List.map_cons, List.sum_append, List.sum_cons]
  omega

/-- **C20 for the model, cost goal, no waiting**: for a tour that already has jobs, if nobody waits in the tour as it
    is and in the tour with the job inserted, every component of the quoted cost vector equals the change of the
    corresponding objective value recomputed from the bare tours - unassigned jobs, number of tours, total cost
    (fixed + distance x per-distance + duration x per-time). With waiting the quote is an estimate (the real code
    prices the waiting it may win back heuristically); that case is decided by the oracle on generated cases only. -/
theorem quote_exact_cost_noWait (c : Ctx) (i : Nat) (x : Act) (hi : i ≤ c.acts.length)
    (hobj : c.obj = .cost) (hne : c.tour.isEmpty = false)
    (hold : noWait c.m.t (c.veh.full c.acts) c.veh.startLoc c.veh.dep = true)
    (hnew : noWait c.m.t (c.veh.full (insertAt c.acts i x)) c.veh.startLoc c.veh.dep = true) :
    costVector c i x =
      List.zipWith (· - ·) (fitnessOf c (insertAt c.acts i x) 0) (fitnessOf c c.acts 1) := by
  have hins : (insertAt c.acts i x).isEmpty = false := by
    unfold insertAt; simp
  have hemp : c.acts.isEmpty = false := by simpa [Ctx.acts] using hne
  unfold costVector fitnessOf transportFitness totalDuration
  simp only [hobj, hins, hemp, hne, List.zipWith_cons_cons, List.zipWith_nil_right, Bool.false_eq_true, if_false]
  rw [cost_estimate_noWait c i x hi hne hold hnew,
      leg_estimate_exact c.m.d c i x hi hne, leg_estimate_exact c.m.t c i x hi hne,
      after_noWait _ _ _ _ hold, after_noWait _ _ _ _ hnew, durSum_full_insertAt c.veh c.acts i x hi]
  simp only [Int.add_mul, Int.sub_mul]
  have e1 : (-1 : Int) = 0 - 1 := by omega
  have e2 : (0 : Int) = 1 - 1 := by omega
  rw [e1, e2]
  congr 2
  congr 1
  omega


/-! ### non-vacuity -/
def exM : Mat := { n := 3, dur := [0, 5, 7, 5, 0, 3, 7, 3, 0], dist := [0, 5, 7, 5, 0, 3, 7, 3, 0] }
def exC : Ctx := { m := exM, veh := { startLoc := 0, earliest := 0, dep := 0, endAt := some (0, 100) }, cap := [5],
                   costs := ⟨10, 1, 1⟩, obj := .distance,
                   tour := [{ act := { loc := 1, s := 0, e := 50, dur := 1 }, dem := none }] }
-- inserting location 2 after the job: 0→1→2→0 = 15 against 0→1→0 = 10, quote +5, one job less unassigned
example : costVector exC 1 { loc := 2, s := 0, e := 50, dur := 0 } = [-1, 0, 5] := by decide
-- the cost goal: nobody waits before and after the insertion (hypotheses of `quote_exact_cost_noWait` hold), the quote
-- is detour 5 x 1 per distance + (detour 5 + service 2) x 1 per time = 12
def exK : Ctx := { exC with obj := .cost }
example : noWait exK.m.t (exK.veh.full exK.acts) exK.veh.startLoc exK.veh.dep = true ∧
    noWait exK.m.t (exK.veh.full (insertAt exK.acts 1 { loc := 2, s := 0, e := 50, dur := 2 })) exK.veh.startLoc exK.veh.dep = true ∧
    costVector exK 1 { loc := 2, s := 0, e := 50, dur := 2 } = [-1, 0, 12] := by decide

/-! ## cost goal, first job of a tour -/

/-- **C20, cost goal, first job of an unused tour**: when nobody waits in the new tour, the quote (route-level fixed cost
    included) is the total cost of the new tour, which is the change since an unused tour costs nothing -/
theorem quote_exact_cost_first (c : Ctx) (x : Act) (hobj : c.obj = .cost) (he : c.tour = [])
    (hnew : noWait c.m.t (c.veh.full [x]) c.veh.startLoc c.veh.dep = true) :
    costVector c 0 x = List.zipWith (· - ·) (fitnessOf c (insertAt c.acts 0 x) 0) (fitnessOf c c.acts 1) := by
  have ha : c.acts = [] := by simp [Ctx.acts, he]
  unfold costVector fitnessOf transportFitness totalDuration estimateCostActivity
  simp only [hobj, ha, he, insertAt]
  cases hend : c.veh.endAt with
  | none =>
    simp only [Veh.full, Veh.endActs, hend, List.append_nil, noWait, Bool.and_true, decide_eq_true_eq] at hnew
    simp [Veh.full, Veh.endActs, hend, after, totalDist, depOf]
    have h1 : max (x.s - (c.veh.dep + c.m.t c.veh.startLoc x.loc)) 0 = 0 := by omega
    have h2 : max (c.veh.dep + c.m.t c.veh.startLoc x.loc) x.s + x.dur - c.veh.dep
        = c.m.t c.veh.startLoc x.loc + x.dur := by omega
    rw [h1, h2]
    simp only [Int.add_mul, Int.zero_mul]
    omega
  | some e =>
    obtain ⟨el, eT⟩ := e
    simp only [Veh.full, Veh.endActs, hend, List.cons_append, List.nil_append, noWait, Bool.and_true, Bool.and_eq_true,
      decide_eq_true_eq] at hnew
    obtain ⟨hx, hE⟩ := hnew
    simp [Veh.full, Veh.endActs, hend, after, totalDist, depOf]
    unfold depOf at hE
    have h1 : max (x.s - (c.veh.dep + c.m.t c.veh.startLoc x.loc)) 0 = 0 := by omega
    have h3 : max (c.veh.dep + c.m.t c.veh.startLoc x.loc) x.s = c.veh.dep + c.m.t c.veh.startLoc x.loc := by omega
    rw [h1, h3] at *
    have h4 : max (-(c.veh.dep + c.m.t c.veh.startLoc x.loc + x.dur + c.m.t x.loc el)) 0 = 0 := by omega
    have h5 : max (c.veh.dep + c.m.t c.veh.startLoc x.loc + x.dur + c.m.t x.loc el) 0 - c.veh.dep
        = c.m.t c.veh.startLoc x.loc + x.dur + c.m.t x.loc el := by omega
    rw [h4, h5]
    simp only [Int.add_mul, Int.zero_mul]
    omega

def exE : Ctx := { exK with tour := [] }
example : noWait exE.m.t (exE.veh.full [{ loc := 2, s := 0, e := 50, dur := 4 }]) exE.veh.startLoc exE.veh.dep = true ∧
    costVector exE 0 { loc := 2, s := 0, e := 50, dur := 4 } = [-1, 1, 42] := by decide

/-! ## maximize-value layer: the quote is the realised change, at every position -/

theorem sum_insertAt (vals : List Int) (i : Nat) (v : Int) : (insertAt vals i v).sum = vals.sum + v := by
  unfold insertAt
  have h : vals.sum = (vals.take i).sum + (vals.drop i).sum := by
    rw [← List.sum_append, List.take_append_drop]
  rw [List.sum_append, List.sum_cons, h]
  omega

/-- **C20, total value of served jobs**: the quoted (route-level) cost equals the change of the layer's value recomputed from
    the tour, whatever the position -/
theorem quote_exact_value (vals : List Int) (i : Nat) (v : Int) :
    valueFitness (insertAt vals i v) - valueFitness vals = valueQuote v := by
  unfold valueFitness valueQuote
  rw [sum_insertAt]
  omega

example : valueFitness (insertAt [3, 0, 7] 1 5) - valueFitness [3, 0, 7] = valueQuote 5 := by decide

end C20
