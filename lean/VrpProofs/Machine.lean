import VrpModel.Machine
/-! Partition invariant of the abstract search machine, stated by counting (shared by C02 and C04). -/
set_option linter.unusedSimpArgs false
set_option linter.unnecessarySimpa false
set_option linter.unusedVariables false

namespace Machine

/-- Partition, stated by counting: every job occurs in the four lists together exactly as often as in the problem. -/
def Part (all : List Job) (c : Ctx) : Prop := ∀ x, c.allJobs.count x = all.count x

theorem part_iff_perm (all : List Job) (c : Ctx) : Part all c ↔ c.allJobs.Perm all := by
  unfold Part; exact List.perm_iff_count.symm

def cnt (x : Job) (rs : List Route) : Nat := (rs.flatMap (·.jobs)).count x

theorem cnt_nil (x : Job) : cnt x [] = 0 := by simp [cnt]
theorem cnt_cons (x : Job) (a : Route) (rs : List Route) : cnt x (a :: rs) = a.jobs.count x + cnt x rs := by
  simp [cnt, List.count_append]
theorem cnt_append (x : Job) (rs ss : List Route) : cnt x (rs ++ ss) = cnt x rs + cnt x ss := by
  simp [cnt, List.count_append]

theorem cnt_modify_cons (x j : Job) (rs : List Route) (r : Nat) (h : r < rs.length) :
    cnt x (rs.modify r (fun rt => { rt with jobs := j :: rt.jobs })) = cnt x rs + (if j = x then 1 else 0) := by
  induction rs generalizing r with
  | nil => simp at h
  | cons a rs ih =>
    cases r with
    | zero => simp [List.modify, cnt_cons, List.count_cons]; split <;> omega
    | succ r =>
      simp only [List.modify_succ_cons, cnt_cons]
      rw [ih r (by simpa using h)]; omega

theorem count_erase_mem (x j : Job) (l : List Job) (h : j ∈ l) :
    (l.erase j).count x + (if j = x then 1 else 0) = l.count x := by
  rw [List.count_erase]
  have : 0 < l.count j := List.count_pos_iff.mpr h
  by_cases e : j = x
  · subst e; simp; omega
  · have : (x == j) = false := by simp [Ne.symm e]
    simp [e, this]

theorem cnt_modify_erase (x j : Job) (rs : List Route) (r : Nat) (rt : Route)
    (h : rs[r]? = some rt) (hj : j ∈ rt.jobs) :
    cnt x (rs.modify r (fun rt => { rt with jobs := rt.jobs.erase j })) + (if j = x then 1 else 0) = cnt x rs := by
  induction rs generalizing r with
  | nil => simp at h
  | cons a rs ih =>
    cases r with
    | zero =>
      simp at h; subst h
      have h2 := count_erase_mem x j a.jobs hj
      have e1 : cnt x ((a :: rs).modify 0 (fun rt => { rt with jobs := rt.jobs.erase j }))
          = (a.jobs.erase j).count x + cnt x rs := by simp [List.modify, cnt_cons]
      rw [e1, cnt_cons]; omega
    | succ r =>
      simp only [List.modify_succ_cons, cnt_cons]
      have := ih r (by simpa using h)
      omega

theorem cnt_eraseIdx (x : Job) (rs : List Route) (r : Nat) (rt : Route) (h : rs[r]? = some rt) :
    cnt x (rs.eraseIdx r) + rt.jobs.count x = cnt x rs := by
  induction rs generalizing r with
  | nil => simp at h
  | cons a rs ih =>
    cases r with
    | zero => simp at h; subst h; simp [cnt_cons]; omega
    | succ r =>
      simp only [List.eraseIdx_cons_succ, cnt_cons]
      have := ih r (by simpa using h)
      omega

theorem step_part (all : List Job) (c c' : Ctx) (op : Op) (h : Part all c) (hs : step c op = some c') :
    Part all c' := by
  intro x
  have hx := h x
  simp only [Ctx.allJobs, Ctx.assigned, List.count_append] at hx ⊢
  change _ + cnt x c'.routes = _
  change _ + cnt x c.routes = _ at hx
  cases op with
  | insert j r =>
    simp only [step] at hs
    split at hs
    · rename_i hc
      cases hs
      simp only
      have h1 := cnt_modify_cons x j c.routes r hc.2
      have h2 := count_erase_mem x j c.required hc.1
      omega
    · cases hs
  | insertNew j a =>
    simp only [step] at hs
    split at hs
    · rename_i hc
      cases hs
      simp only [cnt_append, cnt_cons, cnt_nil, List.count_cons, List.count_nil]
      have h2 := count_erase_mem x j c.required hc.1
      by_cases e : j = x
      · subst e; simp at h2 ⊢; omega
      · have : (j == x) = false := by simp [e]
        simp [e, this] at h2 ⊢; omega
    · cases hs
  | remove j r =>
    simp only [step] at hs
    split at hs
    · rename_i rt hr
      split at hs
      · rename_i hc
        cases hs
        simp only [List.count_cons]
        have h1 := cnt_modify_erase x j c.routes r rt hr hc.1
        by_cases e : j = x
        · subst e; simp at h1 ⊢; omega
        · have : (j == x) = false := by simp [e]
          simp [e, this] at h1 ⊢; omega
      · cases hs
    · cases hs
  | dropRoute r =>
    simp only [step] at hs
    split at hs
    · rename_i rt hr
      split at hs
      · cases hs
        simp only [List.count_append]
        have h1 := cnt_eraseIdx x c.routes r rt hr
        omega
      · cases hs
    · cases hs
  | finalize =>
    simp only [step] at hs; cases hs
    simp only [List.count_append, List.count_nil]; omega
  | prepare =>
    simp only [step] at hs; cases hs
    simp only [List.count_append, List.count_nil]; omega
  | ignore j =>
    simp only [step] at hs
    split at hs
    · rename_i hc
      cases hs
      simp only [List.count_cons]
      have h2 := count_erase_mem x j c.required hc
      by_cases e : j = x
      · subst e; simp at h2 ⊢; omega
      · have : (j == x) = false := by simp [e]
        simp [e, this] at h2 ⊢; omega
    · cases hs
  | promote j =>
    simp only [step] at hs
    split at hs
    · rename_i hc
      cases hs
      simp only [List.count_cons]
      have h2 := count_erase_mem x j c.ignored hc
      by_cases e : j = x
      · subst e; simp at h2 ⊢; omega
      · have : (j == x) = false := by simp [e]
        simp [e, this] at h2 ⊢; omega
    · cases hs

theorem run_part (all : List Job) (ops : List Op) : ∀ c c', Part all c → run c ops = some c' → Part all c' := by
  induction ops with
  | nil => intro c c' h hr; simp [run] at hr; subst hr; exact h
  | cons op ops ih =>
    intro c c' h hr
    simp only [run] at hr
    cases hs : step c op with
    | none => simp [hs] at hr
    | some c1 => simp [hs] at hr; exact ih c1 c' (step_part all c c1 op h hs) hr


end Machine
