COMMON_NOTE = ("Trusted: Lean kernel; axioms propext/Classical.choice/Quot.sound only (audited each run); the correspondence harness, "
               "Lean driver glue and Python classifier; rustc/cargo. The theorem is about the model; the tie to the code is the "
               "differential run on this check's generated inputs.")
