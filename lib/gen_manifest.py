#!/usr/bin/env python3
"""Regenerates MANIFEST.json from lib/props.py (claimed checks) and lib/manifest_meta.py."""
import json, os, sys
ROOT = os.path.dirname(os.path.dirname(os.path.abspath(__file__)))
sys.path.insert(0, os.path.join(ROOT, "lib"))
import props as P
import manifest_meta as M

checks = []
for pid in sorted(P.META):
    meta = P.META[pid]
    checks.append({
        "property_id": pid,
        "quick_cmd": f"./check {pid} --tier quick",
        "thorough_cmd": f"./check {pid} --tier thorough",
        "evidence_file": f"/verif/evidence/{pid}.json",
        "replay_cmd_template": f"./check {pid} --replay {{path}}",
        "engine": "lean4-proof+correspondence",
        "level_claimed": {"category": "proof", "text": meta["text"], "design_ref": meta.get("design_ref", "DESIGN.md §4 " + pid)},
        "level_note": meta["note"],
        "technique": meta["technique"],
    })
all_ids = [json.loads(l)["id"] for l in open(os.path.join(ROOT, "properties.jsonl"))]
na = [{"property_id": i, "reason": P.NOT_CLAIMED.get(i, "not yet built in this revision: model, theorems and correspondence are in progress (see DESIGN.md §9 build order); no check is registered until it runs green on the unchanged tree")}
      for i in all_ids if i not in P.META]
manifest = {
    "version": 1,
    "setup_cmd": "./setup.sh",
    "hooks": {
        "guard": "reinterpretcat_vrp_verif",
        "enable": "RUSTFLAGS=\"--cfg reinterpretcat_vrp_verif\" (set in /verif/harness/.cargo/config.toml; the harness builds /repo's crates as path dependencies)",
        "baseline_off_cmd": "cd /repo && (cargo nextest run --workspace --no-fail-fast --tool-config-file pb:/w/lib/nextest.toml --profile pb --test-threads 8 --offline || cargo test --workspace --no-fail-fast --offline)",
        "source_commits": M.HOOK_COMMITS,
        "add_only": True,
    },
    "engines": [{
        "name": "lean4-proof+correspondence", "path": "/verif/check",
        "serves_properties": sorted(P.META),
        "kind_free_text": "Lean 4 theorems about an executable model (lean/VrpModel, lean/VrpProofs) + differential correspondence "
                          "between the model (native Lean driver) and the real Rust code (harness, in-process) + Lean-defined oracle on the implementation's output",
    }],
    "checks": checks,
    "notes": "See DESIGN.md. Every check: lake build of the property's theorems, #print axioms audit, cargo build of the harness against /repo's working tree, differential run, classification.",
    "not_applicable": na,
}
json.dump(manifest, open(os.path.join(ROOT, "MANIFEST.json"), "w"), indent=1)
print("claimed:", sorted(P.META), "not claimed:", [x["property_id"] for x in na])
