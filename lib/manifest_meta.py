"""Hook commits recorded in MANIFEST.hooks.source_commits."""
HOOK_COMMITS = []
