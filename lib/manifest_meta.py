"""Hook commits recorded in MANIFEST.hooks.source_commits (guard: --cfg reinterpretcat_vrp_verif)."""
HOOK_COMMITS = [
    "2ffb512",  # verif: declare cfg(reinterpretcat_vrp_verif) for the unexpected_cfgs lint
    "e252cae",  # verif hook H7: expose lkh Tour::try_path behind cfg(reinterpretcat_vrp_verif)
    "bd6a6e1",  # verif hook H3: re-export search utils behind cfg(reinterpretcat_vrp_verif)
    "8501982",  # verif hook H5: expose gsom contraction helpers behind cfg(reinterpretcat_vrp_verif)
    "e9bcde5",  # verif hook H4: expose dynamic selective reward arithmetic behind cfg(reinterpretcat_vrp_verif)
    "6f4543a",  # verif hook H3: re-export search utils from inside the utils module (previous glob stayed crate-private)
    "90b95df",  # verif hook H1: route/solution state digest behind cfg(reinterpretcat_vrp_verif)
    "103a173",  # verif hook H8: expose the named default search operators behind cfg(reinterpretcat_vrp_verif)
    "14b7049",  # verif hook H8b: expose the default diversification operators behind cfg(reinterpretcat_vrp_verif)
    "92aa194",  # verif hook H8b: correct return type of the diversification operators hook
    "5e4ba64",  # verif hook H9: expose the multi-objective composition of the pragmatic goal reader
]
