"""Texts for MANIFEST.json (level claimed per property)."""
HOOK_COMMITS = []
NOT_CLAIMED = {}
COMMON_NOTE = ("Trusted: Lean kernel; axioms propext/Classical.choice/Quot.sound only (audited each run); the correspondence harness, "
               "Lean driver glue and Python classifier; rustc/cargo. The theorem is about the model; the tie to the code is the "
               "differential run on this check's generated inputs.")
META = {
    "C09": dict(
        text="Proof (Lean 4): for ALL 64-bit float patterns and vectors/layer lists of any length — the single-layer comparator is "
             "compare on an integer key (total preorder; reflexive, antisymmetric, transitive), goals of any mix of single and dominance "
             "layers are reflexive and antisymmetric, single-layer goals equal lexicographic comparison with ±0 identified, dominance is "
             "provably not transitive (witness), InsertionCost::cmp is the lexicographic order of zero-padded vectors (total order laws, "
             "missing = 0), (x+y)-y = x component-wise over exact arithmetic. Tie: bit-exact differential run of the real "
             "GoalContext::total_order / dominance_order / InsertionCost operators against the model, and the order laws + lexicographic "
             "spec evaluated on the implementation's own comparison matrices.",
        note=COMMON_NOTE + " Out of model: f64 rounding of +/- (law proved over Int, checked on integer-valued vectors).",
        technique="Lean 4 theorems over UInt64 bit patterns (omega) + differential correspondence of model and real comparators",
    ),
}
