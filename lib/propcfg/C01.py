"""C01 — returned tours never violate a hard constraint."""
import os, sys
sys.path.insert(0, os.path.dirname(os.path.dirname(os.path.abspath(__file__))))
from common_texts import COMMON_NOTE
import solver_common as S

CLAIMED = True

PREDICATES = S.PREDICATES

PROP = dict(
    proof_modules=["VrpProofs.C01", "VrpProofs.C01Reload", "VrpProofs.C01Reach", "VrpProofs.C06", "VrpProofs.C06Cap", "VrpProofs.C06CapVec"],
    model_modules=["VrpModel.Route", "VrpModel.C06", "VrpModel.C01Reload", "VrpModel.C01Reach", "VrpModel.Prag", "VrpModel.Spec"],
    drv="drv_c01", bin="c01", share_run=True, corpus_ids=["C01", "C02", "C03"],
    secondary=[dict(bin="c04", drv="drv_c04", keys=["assigned_part_feasible"], corpus_ids=["C04"],
                    label="operator histories of C04: the assigned part of every step's solution keeps the hard rules")],
    compare=S.make_compare("feasible"), nontrivial=S.nontrivial, extra_evidence=S.extra, rule=S.RULE,
    modelled="insertion evaluator (C06 model): time windows, shift, capacity; abstract tour machine (insert accepted by the evaluator, remove, "
             "drop route, fresh tour)",
    traced="the bodies of the shipped operators, hyper-heuristics, populations and post-processing: every returned solution of the campaign is "
           "checked by the Lean specification Spec.feasible on the pragmatic solution JSON (windows of the place used, shift window, load per "
           "reload interval and dimension, skills, distance/duration/size limits, groups, compatibility, hard order, reachability, relations; a taken optional break is one the shift defines: duration and location of one of its "
           "places, begun inside its time window, offsets counted from the departure)",
    out_of_model="vicinity clustering, recharge stations, required breaks/reserved times, time-dependent matrices",
    assumptions=["metric matrices in the proof-backed stream (removals keep time feasibility only under the triangle inequality: theorem "
                 "hypothesis Metric, known finding S7 outside it)"],
)

META = dict(
    text="Proof (Lean 4) for the abstract tour machine, every operation sequence (= every operator choice, random stream, thread schedule): "
         "insertions accepted by the evaluator model keep tours feasible unconditionally (C06 evalTime_sound, cap_sound1), removals keep time "
         "feasibility under the triangle inequality (remove_keeps_time_feasible; provably false without it: "
         "removal_breaks_feasibility_without_metric = known finding S7) and capacity for static demand (remove_keeps_capacity_static), hence "
         "every reachable state consists of feasible tours (machine_preserves_feasible). The operator bodies are TRACED, not proved: every "
         "solution returned by the real solver over the enumerated configuration x parallelism campaign is checked by the independent Lean "
         "specification on the output document.",
    note=COMMON_NOTE + " Whole-solver quantifier (all configurations, all schedules): theorem for the model machine + trace validation of real runs.",
    technique="Lean 4 invariant over operation sequences of a tour machine (built on the C06 evaluator theorems) + Lean-defined feasibility oracle on real solver outputs",
)
