"""C02 — every job is accounted for exactly once."""
import os, sys
sys.path.insert(0, os.path.dirname(os.path.dirname(os.path.abspath(__file__))))
from common_texts import COMMON_NOTE
import solver_common as S

CLAIMED = True

PROP = dict(
    proof_modules=["VrpProofs.C02", "VrpProofs.Machine"],
    model_modules=["VrpModel.Machine", "VrpModel.Prag", "VrpModel.Spec"],
    drv="drv_c01", bin="c01", share_run=True, corpus_ids=["C01", "C02", "C03"],
    compare=S.make_compare("partition"), nontrivial=S.nontrivial, extra_evidence=S.extra, rule=S.RULE,
    modelled="SolutionContext bookkeeping as an abstract machine: apply_insertion_success (existing/fresh route), try_remove_job (locked "
             "refused), whole-route removal, finalize_unassigned, prepare_insertion_ctx, conditional jobs, remove_empty_routes, Solution::from",
    traced="operator bodies, clustering pre/post-processing and the solution writer: Spec.partition on every returned solution (ids, complete "
           "multi-task jobs on one tour, pickups before deliveries, unassigned with reasons, existing vehicle shifts, one tour per vehicle "
           "shift, at least one job per tour, breaks/reloads within what the shift defines)",
    out_of_model="which concrete break of a shift a stop corresponds to is checked by count; reloads are told apart by tag and location (no more uses than the shift defines of that kind)",
    assumptions=[],
)

META = dict(
    text="Proof (Lean 4) for the abstract search machine and EVERY operation sequence: required/ignored/unassigned/assigned partition the plan's "
         "jobs by counting (run_part, reachable_solution_partition, exactly_one_place, no_foreign_job), the registry offers a vehicle exactly "
         "when it drives no route and no vehicle drives two (step_reg, run_reg, registry_matches_routes), locked jobs are never removed "
         "(step_locked_stays), finalisation empties required and remove_empty_routes hands over no job-less route (finalize_no_required, "
         "dropEmpty_part, dropEmpty_no_empty_route). Operator bodies are traced: the Lean partition specification is evaluated on every "
         "solution the real solver returns in the configuration campaign.",
    note=COMMON_NOTE,
    technique="Lean 4 counting invariant over operation sequences of the SolutionContext machine + Lean-defined partition oracle on real solver outputs",
)
