"""C03 — reported schedule, load, distance and cost are reproducible."""
import os, sys
sys.path.insert(0, os.path.dirname(os.path.dirname(os.path.abspath(__file__))))
from common_texts import COMMON_NOTE
import solver_common as S

CLAIMED = True

PROP = dict(
    proof_modules=["VrpProofs.C03"],
    model_modules=["VrpModel.Route", "VrpModel.C03", "VrpModel.Prag", "VrpModel.Spec"],
    drv="drv_c01", bin="c01", share_run=True, corpus_ids=["C01", "C02", "C03"],
    compare=S.make_compare("replay"), nontrivial=S.nontrivial, extra_evidence=S.extra, rule=S.RULE,
    modelled="the statistic fold of solution_writer.rs::create_tour (duration, distance, driving/serving/waiting/break split, cost) on the "
             "fragment without commute/parking and reserved times",
    traced="the writer as a whole: Spec.replay recomputes from matrices, vehicle costs and the reported visiting order only — arrival = previous "
           "departure + scaled travel time, cumulative stop distances, activities inside a stop sequential, load per stop (per reload "
           "interval), tour statistic, cost = fixed + distance*c_d + duration*c_t, overall = sum of tours; the reported tag is the tag of "
           "the place (location, duration, window) that explains the activity (Spec.feasible/placeExplains)",
    out_of_model="commute/parking (clustering), reserved times inserted as breaks, the +-1 rounding of non-integral data (integer data only)",
    assumptions=["integer-valued data: the +-1 tolerance of the format is applied but never needed"],
)

META = dict(
    text="Proof (Lean 4), tours of any length: the writer's statistic fold equals the replay of the visiting order — duration telescopes to "
         "last departure minus first departure, driving+serving+waiting+break = duration, distance = sum of leg distances, cost = fixed + "
         "distance*c_d + duration*c_t, the overall statistic is the sum of the tours (foldLeg_duration, foldLeg_timing_split, "
         "foldLeg_distance, foldLeg_cost, tourStat_is_replay, overall_is_sum). Tie: the independent Lean replay specification is evaluated on "
         "every solution document the real solver + writer return in the configuration campaign (times, loads, distances, statistics, tags).",
    note=COMMON_NOTE + " The writer model is tied to the code through the replay oracle on real outputs (no separate route-dump correspondence yet).",
    technique="Lean 4 induction over the writer's fold + Lean-defined replay oracle on real solver outputs",
)
