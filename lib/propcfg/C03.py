"""C03 — reported schedule, load, distance and cost are reproducible."""
import os, sys
sys.path.insert(0, os.path.dirname(os.path.dirname(os.path.abspath(__file__))))
from common_texts import COMMON_NOTE
import solver_common as S

CLAIMED = True

STAT_KEYS = ["cost", "distance", "duration", "driving", "serving", "waiting", "break"]


def w_compare(case, verdict):
    """writer stage: the Lean model of create_tour, run on the dump of every core route, must render the tour the real writer
    rendered (stops, activities, times, tags, loads, distances, statistic); oracle = the reader's specification on the real tours"""
    impl = case.get("impl") or {}
    if isinstance(impl, dict) and "panic" in impl:
        return {"agree": False, "holds": False, "detail": "implementation panicked: " + str(impl["panic"])[:300]}
    if "error" in impl:
        return {"skipped": True}
    model = (verdict.get("model") or {}).get("tours")
    oracle = verdict.get("oracle", {})
    bad = [k for k, v in oracle.items() if v is False]
    diffs = []
    if model is None or len(model) != len(impl.get("tours", [])):
        diffs.append("number of tours")
    else:
        for i, (m, t) in enumerate(zip(model, impl["tours"])):
            if m is None:
                continue   # commute / non-integral: outside the model, counted by the driver
            keys = STAT_KEYS + (["commuting", "parking"] if case.get("k") == "wcluster" else [])
            t2 = {"stops": t["stops"], "statistic": {k: t["statistic"][k] for k in keys}}
            if m != t2:
                what = "statistic" if m["stops"] == t2["stops"] else "stops"
                diffs.append(f"tour {i} ({t.get('vehicleId')}): {what} differ")
    detail = ""
    if diffs:
        detail = "writer model and real writer differ: " + "; ".join(diffs[:4])
    if bad:
        detail = "oracle failed: " + ",".join(sorted(bad)) + " " + str((verdict.get("info") or {}).get("bad"))[:600]
    return {"agree": not diffs, "holds": not bad, "detail": detail}


def unrepresentable_schedule(case, detail, m):
    """known-finding predicate (S55): a problem of the required-break stream for which the SOLVER hands over a tour whose schedule is
    f64::MAX from some activity on (DynamicActivityCost::estimate_departure answers MAX when a job can no longer be finished around the
    reserved time), and the writer panics in format_time on exactly that value; nothing else"""
    impl = case.get("impl") or {}
    return (case.get("k") == "wbreak" and isinstance(impl, dict) and "ComponentRange" in str(impl.get("panic", ""))
            and "the writer panicked" in str(impl.get("panic", "")) and bool(impl.get("unrepresentable_schedules"))
            and all(x[1] > 1e300 for x in impl["unrepresentable_schedules"]))


def parking_gap(case, detail, m):
    """known-finding predicate (S58): a clustered problem of the writer stage in which the ONLY failing oracle entry is the timing split
    and every tour that fails it is short by a positive amount of at most the parking time per parking stop (the writer parks on
    arrival and then waits, the core waits and then parks: min(parking, time until the window opens) per cluster is accounted
    nowhere)"""
    impl = case.get("impl") or {}
    if case.get("k") != "wcluster" or not isinstance(impl, dict) or "panic" in impl:
        return False
    if not isinstance(detail, str) or "timing_entries_with_commuting_and_parking_add_up_to_the_duration" not in detail:
        return False
    if "one_tour_per_route" in detail.split("[")[0]:
        return False
    try:
        import ast
        bad = ast.literal_eval(detail[detail.index("["):])
    except Exception:
        return False
    return bool(bad) and all(b["parking_time"] > 0 and 0 < b["gap"] <= b["parking_time"] * b["parking_stops"] for b in bad)


def break_inside_stop(case, detail, m):
    """known-finding predicate (S59): required-break stream, only the break clauses fail (timing split / cost), and every failing tour
    has a reserved time that prolongs a ZERO-LENGTH leg between two activities at one location (next arrival - previous departure =
    break duration, the break falls due exactly at the previous departure): the core books the prolongation as travel, the writer
    writes the break into the stop, keeps the time as driving and charges it again as break"""
    impl = case.get("impl") or {}
    if case.get("k") != "wbreak" or not isinstance(impl, dict) or "panic" in impl or not isinstance(detail, str):
        return False
    if "tours_with_required_breaks_meet_the_break_clauses" not in detail:
        return False
    try:
        import ast
        bad = ast.literal_eval(detail[detail.index("[{"):])
    except Exception:
        return False
    allowed = {"driving+serving+waiting+break does not add up to duration", "cost is not fixed + distance*cd + duration*ct"}
    routes = {r.get("vehicleId"): r for r in impl.get("routes", [])}
    def shape(r):
        acts = r.get("acts", [])
        for rt in r.get("reserved", []):
            if rt.get("offset"):
                continue
            for a, b in zip(acts, acts[1:]):
                if (a["loc"] == b["loc"] and isinstance(a["dep"], int) and isinstance(b["arr"], int) and rt["dur"] > 0
                        and b["arr"] - a["dep"] == rt["dur"] and a["dep"] == rt["stop"] and b["legDist"] == 0):
                    return True
        return False
    return bool(bad) and all(set(b["rules"]) <= allowed and b["vehicleId"] in routes and shape(routes[b["vehicleId"]]) for b in bad)


PREDICATES = {"c03w_unrepresentable_schedule": unrepresentable_schedule, "c03w_parking_gap": parking_gap,
              "c03w_break_inside_stop": break_inside_stop}


def w_nontrivial(case, verdict):
    info = verdict.get("info") or {}
    return info.get("routes", 0) >= 1 and info.get("activities", 0) >= 4


def w_extra(cases, verdicts):
    tot = {}
    for v in verdicts.values():
        for k, x in (v.get("info") or {}).items():
            if isinstance(x, int) and not isinstance(x, bool):
                tot[k] = tot.get(k, 0) + x
    return {"what": "route dumps of real solver outputs: Lean writeTour vs the real writer, tour by tour", "totals": tot}


PROP = dict(
    proof_modules=["VrpProofs.C03", "VrpProofs.C03W"],
    model_modules=["VrpModel.Route", "VrpModel.C03", "VrpModel.C03W", "VrpModel.Prag", "VrpModel.Spec"],
    drv="drv_c01", bin="c01", share_run=True, corpus_ids=["C01", "C02", "C03"],
    secondary=[dict(bin="c03w", drv="drv_c03w", full=True, compare=w_compare, nontrivial=w_nontrivial, extra_evidence=w_extra,
                    corpus_ids=["C03W"],
                    label="writer stage: Lean model of create_tour vs the real writer on dumps of real routes")],
    compare=S.make_compare("replay"), nontrivial=S.nontrivial, extra_evidence=S.extra, rule=S.RULE,
    modelled="solution_writer.rs::create_tour as a whole, incl. the commute / parking branches for expanded vicinity clusters (C03W.writeTourC, "
             "correspondence on every route of the clustered stream; proved to be a conservative extension of the plain model: "
             "writeTourC_plain); on routes without commute/parking and reserved times C03W.writeTour: the fold over "
             "the reload intervals and the activities - stops and their grouping by location, activity ids / types / place tags / times, "
             "loads per interval incl. get_capacity and calculate_load, cumulative stop distances, the statistic, the fixed cost, the pass "
             "that removes redundant activity details) AND break_writer.rs insert_reserved_times_as_breaks / insert_break (C03W.writeTourX: "
             "which reserved times belong to the tour, the scan over the legs, transit stops, breaks moved in front of a leg, the "
             "position of the break activity, the waiting overlap, cost / driving / waiting / break accounting, stretched activity "
             "ends, the stable sort by start time), tied by the route-dump correspondence (every route of real solver outputs is dumped "
             "through the public core API and the model must render exactly the tour the real writer rendered); the older statistic-only "
             "fold C03.foldLeg",
    traced="create_solution around create_tour (overall statistic, unassigned, violations); for tours of vehicles with REQUIRED breaks the "
           "core schedule with reserved times (DynamicActivityCost / DynamicTransportCost prolong service and travel) is taken from the "
           "dump, not modelled: one problem in five of the writer stage has required breaks, the written tour must equal the model's and "
           "is judged by the break clauses C03W.specBreakTour (driving+serving+waiting+break = duration, duration "
           "= span of the stops, cost = fixed + distance*c_d + duration*c_t, break entry = sum of the reported break activities, every break "
           "inside the tour's time span) - this stream found S52, S53, S54; for clustered problems of the campaign Spec.commuteReplay (commute legs and stop-to-stop distances against the routing data); Spec.replay recomputes from matrices, vehicle costs and the reported visiting order only — arrival = previous "
           "departure + scaled travel time, cumulative stop distances, activities inside a stop sequential, load per stop (per reload "
           "interval), tour statistic, cost = fixed + distance*c_d + duration*c_t, overall = sum of tours; the reported tag is the tag of "
           "the place (location, duration, window) that explains the activity (Spec.feasible/placeExplains)",
    out_of_model="the core's scheduling around reserved times and its expansion of clusters (taken from the route dump); the +-1 rounding of non-integral data (integer data only)",
    assumptions=["integer-valued data: the +-1 tolerance of the format is applied but never needed"],
)

META = dict(
    text="Proof (Lean 4), routes of any length, any number of reload intervals, any demands: the tour the writer model renders meets every "
         "clause of the reader's specification (writeTour_meets_spec: activities = the route's activities in visiting order, none lost / "
         "duplicated / reordered; duration = last - first departure; distance = sum of legs = distance of the last stop; timing entries = sums "
         "over the activities; consistent schedule => driving+serving+waiting+break = duration and cost = fixed + distance*c_d + duration*c_t; "
         "consecutive stops differ in location; no empty stop; writeTour_total); for the break writer: without reserved times it is the plain "
         "writer (writeTourX_nil), a break written into a stop adds exactly one activity, the break, and the stable sort loses and invents "
         "nothing (insertBreak_activities, sortByTime_count). Tie 1: correspondence - the model must render exactly "
         "the tour the real create_tour rendered for every route of real solver outputs (route dump through the public core API). "
         "Older statistic-only fold: the writer's statistic fold equals the replay of the visiting order — duration telescopes to "
         "last departure minus first departure, driving+serving+waiting+break = duration, distance = sum of leg distances, cost = fixed + "
         "distance*c_d + duration*c_t, the overall statistic is the sum of the tours (foldLeg_duration, foldLeg_timing_split, "
         "foldLeg_distance, foldLeg_cost, tourStat_is_replay, overall_is_sum). Tie: the independent Lean replay specification is evaluated on "
         "every solution document the real solver + writer return in the configuration campaign (times, loads, distances, statistics, tags).",
    note=COMMON_NOTE + " The writer model create_tour is tied by a route-dump correspondence on real routes; clustered routes (commute/parking) and required breaks (reserved times) are outside it and judged by the replay oracle only.",
    technique="Lean 4 induction over a model of the writer create_tour (correspondence with the real writer on route dumps) + Lean-defined replay oracle on real solver outputs",
)
