"""C04 — every search step maps a consistent solution to a consistent one."""
import os, sys, collections
sys.path.insert(0, os.path.dirname(os.path.dirname(os.path.abspath(__file__))))
from common_texts import COMMON_NOTE

CLAIMED = True


def compare(case, verdict):
    impl = case.get("impl")
    if isinstance(impl, dict) and "panic" in impl:
        return {"agree": False, "holds": False, "detail": "an operator panicked: " + str(impl["panic"])[:300]}
    info = verdict.get("info", {})
    if "skipped" in info:
        # a generated problem the reader rejects is a harness matter
        if str(info["skipped"]).startswith("generated problem is invalid"):
            return {"skipped": True}
        return {"agree": True, "holds": False, "detail": "history failed: " + str(info["skipped"])[:300]}
    bad = [k for k, v in verdict.get("oracle", {}).items() if v is False]
    if case.get("k") == "machine":
        # elementary-step traces: the machine model must reproduce the real bookkeeping after every call
        model = verdict.get("model") or {}
        agree = model.get("agree") is True
        detail = "" if agree else "machine model and real bookkeeping differ: " + str(model.get("mismatches"))[:900]
        if bad:
            detail = "oracle failed: " + ",".join(sorted(bad)) + " " + detail
        return {"agree": agree, "holds": not bad, "detail": detail}
    return {"agree": True, "holds": not bad,
            "detail": ("oracle failed: " + ",".join(sorted(bad)) + " " + str(info.get("bad"))[:900]) if bad else ""}


def nontrivial(case, v):
    if case.get("k") == "machine":
        return v.get("info", {}).get("machine_steps", 0) >= 15
    steps = (case.get("impl") or {}).get("steps", [])
    return len(steps) >= 10 and any(len(s["book"]["routes"]) >= 2 for s in steps)


def extra(cases, verdicts):
    ops = collections.Counter()
    feats = collections.Counter()
    steps = 0
    total_ops = 0
    for c in cases:
        impl = c.get("impl") or {}
        total_ops = max(total_ops, impl.get("operator_count", 0))
        for s in impl.get("steps", []):
            ops[s["op"]] += 1
            steps += 1
        sp = c.get("sp", {})
        if impl.get("pins"): feats["pinned_jobs"] += 1
        for p in impl.get("pins", []): feats["pin_" + p["order"]] += 1
        if any(len(j["tasks"]) > 1 for j in sp.get("jobs", [])): feats["multi_task_jobs"] += 1
        if any(j.get("compat") for j in sp.get("jobs", [])): feats["compatibility"] += 1
        if any(j.get("group") for j in sp.get("jobs", [])): feats["groups"] += 1
        if any(s["reloads"] for v in sp.get("vehicles", []) for s in v["shifts"]): feats["reloads"] += 1
        if any(s["breaks"] for v in sp.get("vehicles", []) for s in v["shifts"]): feats["breaks"] += 1
    singles = {k: v for k, v in ops.items() if "+" not in k}
    mcases = [c for c in cases if c.get("k") == "machine"]
    msteps = sum(verdicts.get(c["id"], {}).get("info", {}).get("machine_steps", 0) for c in mcases)
    mev = collections.Counter(e["ev"] + (":" + str(e["result"]) if "result" in e and isinstance(e["result"], bool) else "")
                              for c in mcases for e in (c.get("impl") or {}).get("events", []))
    return {"operator_steps": steps, "distinct_operators_exercised": len(ops), "operators_available": total_ops + 1,
            "non_pair_operator_steps": singles, "problem_features": dict(feats),
            "machine_traces": len(mcases), "machine_steps_compared": msteps, "machine_events": dict(mev)}


def marker_pin_only(case, detail, m):
    """known-finding predicate (S45): the failing entries are the pin oracle and/or the feasibility oracle, and every note says
    that a pinned reload / break marker left its place while the customer jobs keep theirs"""
    if not isinstance(detail, str) or not detail.startswith("oracle failed: "):
        return False
    head, _, rest = detail[len("oracle failed: "):].partition(" ")
    keys = set(k for k in head.split(",") if k)
    if not keys or not keys <= {"locked_jobs_stay", "assigned_part_feasible"}:
        return False
    import ast
    try:
        notes = ast.literal_eval(rest.strip())
    except Exception:
        return False
    if not notes or len(notes) >= 6:      # the driver lists at most 6 distinct notes (all of the first failing step)
        return False
    ok_notes = ("a pinned marker (reload/break) left its place", "a listed reload/break is not at its place")
    return all(any(t in n.get("what", "") for t in ok_notes) and "; " not in n.get("what", "") for n in notes)


SOLUTION_LEVEL = (r"^infeasible: group \S+ is served by \d+ tours$", r"^infeasible: shared resource \S+: \[[-0-9, ]*\] drawn, capacity \[[-0-9, ]*\]$")


def solution_level_after_diversify(case, detail, m):
    """known-finding predicate (S60): the ONLY failing entry is the feasibility oracle, every note belongs to a step of the
    diversification composite / the infeasible search (the operators that end in `repair_solution_from_unknown`), and every note
    names a SOLUTION-level rule - one tour per group, capacity of a shared reload resource - and nothing else"""
    import re as _re, ast
    if not isinstance(detail, str) or not detail.startswith("oracle failed: "):
        return False
    head, _, rest = detail[len("oracle failed: "):].partition(" ")
    if head != "assigned_part_feasible":
        return False
    try:
        notes = ast.literal_eval(rest.strip())
    except Exception:
        return False
    if not notes or len(notes) >= 6:
        return False
    return all(n.get("op") in ("diversify", "infeasible_search") and any(_re.match(rx, n.get("what", "")) for rx in SOLUTION_LEVEL)
               for n in notes)


PREDICATES = {"marker_pin_only": marker_pin_only}



PROP = dict(
    proof_modules=["VrpProofs.C04", "VrpProofs.C01Reload", "VrpProofs.C02", "VrpProofs.Machine"],
    model_modules=["VrpModel.Machine", "VrpModel.C04", "VrpModel.C01Reload", "VrpModel.Prag", "VrpModel.Spec"],
    drv="drv_c04", bin="c04", compare=compare, nontrivial=nontrivial, extra_evidence=extra,
    rule="operator histories: pragen problems (6-18 jobs; multi-task jobs, reloads, breaks, groups, compatibility, skills, limits, two "
         "profiles; a third with relations of all three kinds derived from a first solve; metric matrices), an initial cheapest-insertion "
         "solution, then 25 (quick) / 60 (thorough) steps drawn from EVERY shipped operator: the 170+ named ruin+recreate pairs and local / "
         "decomposition / LKH operators of the default heuristic (hook H8), its diversification composite (hook H8b), and redistribution, "
         "infeasible search with repair, sequence exchange and diverse LKH built through their public constructors; half of the picks come "
         "from the non-pair operators so that each is exercised. After every step: bookkeeping by job index, every tour's activities and "
         "job set, stale flags, the pragmatic rendering, fingerprints of the parent before/after, cached state vs strip-and-recompute. "
         "One history in three runs under explicit objectives that keep per-solution aggregates (work balance, compact tours, soft tour "
         "order), one in four on long tours (30-44 jobs on 1-2 vehicles: the stochastic leg selection samples only from 16-32 legs on). "
         "Elementary-step traces (300 quick / 3000 thorough): the real JobRemovalTracker (hook H3: try_remove_job, try_remove_route with "
         "exact budgets, locked jobs from derived relations, absent jobs), InsertionContext::restore and InsertionHeuristic::process "
         "(observing evaluator recording every evaluation result and the state it saw) are driven by a random script; after EVERY call "
         "the machine model's state must equal the (abstracted) real bookkeeping. "
         "Non-trivial: >= 10 steps and >= 2 routes at some step (histories), >= 15 machine steps (traces). Distinct = SHA-256 of the "
         "canonical case input",
    modelled="SolutionContext bookkeeping as an abstract machine (insert into existing/fresh route, remove job unless locked, remove route, "
             "finalize, conditional jobs, drop empty routes); JobRemovalTracker (both budgets, whole/partial route removal) and the "
             "bookkeeping of InsertionHeuristic::process as compositions of machine steps (tryRemoveJob, tryRemoveRoute, processWith) - "
             "these are compared call by call with the real functions; the strict-lock insertion rule Rule::can_insert (canInsert); the "
             "Boolean invariants evaluated on the real snapshots (partB, regB, tourB, pinB)",
    traced="operator bodies: every snapshot of the real context after every step is judged by the Lean predicates and by the solver-level "
           "Lean specifications (Spec.feasible incl. relations, Spec.partition, Spec.replay) on its pragmatic rendering",
    out_of_model="the tabu list (search memory kept in the solution state, not a cache of the tours) is excluded from the cache comparison; "
                 "solution.locked also holds marker jobs (reloads, breaks) which the features themselves may move, so pinned jobs are taken "
                 "from problem.locks; thread schedules (single-thread pool, repeatable random)",
    assumptions=["hooks H8/H8b return the operators exactly as the default heuristic builds them", "hook H1 digests (see C05)"],
)

META = dict(
    text="Proof (Lean 4): the Boolean checks evaluated on real snapshots ARE the machine's predicates (partB_iff_part, regB_regPart); every "
         "elementary step and hence every operation sequence of the SolutionContext machine preserves partition and registry consistency "
         "and never moves a locked job (steps_preserve_inv, run_part, run_reg, step_locked_stays); the removal tracker and the insertion "
         "heuristic's bookkeeping are compositions of machine steps and inherit the invariants whatever the random choices were "
         "(tryRemoveJob_inv, tryRemoveRoute_inv, processWith_inv, processWith_finalized, tryRemoveJob_locked_refused, dropEmpty_reg); a "
         "strict lock's block stays contiguous under every insertion Rule::can_insert admits, for every position kind, and under removal of "
         "any other job (strict_block_survives_insert, strict_block_survives_removal), and so the pin verdict the driver evaluates on real tours "
         "is stable under exactly those moves (pinTourB_strict_insert, pinTourB_strict_removal); a child is a value, so the parent is unchanged in "
         "the model. Tie 1 (correspondence): on elementary-step traces of the REAL tracker / restore / process functions the machine model "
         "reproduces the real bookkeeping after every call (0 disagreements required). Tie 2 (oracles): long random histories over EVERY shipped search operator on the real code; after every step the Lean "
         "predicates (partition over required/ignored/unassigned/routes, registry = fleet minus used actors, tour job sets, whole multi-jobs "
         "in permitted order, pinned jobs on their vehicle in their order) and the Lean solver-level specifications of C01-C03 are evaluated "
         "on the snapshot, the parent's fingerprint (bookkeeping, tours, schedules, every cached value, fitness) is compared before/after, "
         "and every cache is compared with strip-and-recompute.",
    note=COMMON_NOTE + " Operator bodies are traced, not proved: the theorems cover the bookkeeping protocol they all go through.",
    technique="Lean 4 invariant over operation sequences of the SolutionContext machine + call-by-call correspondence of the machine with the real "
              "bookkeeping functions + Lean-defined consistency oracles on real operator histories",
)
