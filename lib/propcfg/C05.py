"""C05 — cached tour state always equals recomputation from the bare tours."""
import os, sys
sys.path.insert(0, os.path.dirname(os.path.dirname(os.path.abspath(__file__))))
from common_texts import COMMON_NOTE

CLAIMED = True


def compare(case, verdict):
    impl = case.get("impl")
    if isinstance(impl, dict) and "panic" in impl:
        return {"agree": False, "holds": False, "detail": "implementation panicked: " + str(impl["panic"])[:300]}
    if "skipped" in verdict.get("info", {}):
        return {"skipped": True}
    model = verdict.get("model") or {}
    agree = True
    detail = ""
    msn, isn = model.get("snaps", []), impl.get("snaps", [])
    if len(msn) != len(isn):
        agree, detail = False, "snapshot count differs"
    for ms, s in zip(msn, isn):
        if len(ms["routes"]) != len(s["routes"]):
            agree, detail = False, "route count differs at " + str(s.get("at"))
        for mr, r in zip(ms["routes"], s["routes"]):
            if mr["sched"] != r["sched"] or mr["digest"] != r["digest"]:
                agree = False
                detail = f"cached state of vehicle {r['vid']} at {s.get('at')} differs from the model's recomputation from the bare tour"
    bad = [k for k, v in verdict.get("oracle", {}).items() if v is False]
    if bad:
        detail = "oracle failed: " + ",".join(sorted(bad))
    return {"agree": agree, "holds": not bad, "detail": detail}


def nontrivial(case, v):
    if case.get("k") == "history":
        return v.get("info", {}).get("history_steps", 0) >= 10
    snaps = (case.get("impl") or {}).get("snaps", [])
    return len(snaps) >= 3 and any(len(r["acts"]) >= 2 for s in snaps for r in s["routes"])


def extra(cases, verdicts):
    snaps = sum(len((c.get("impl") or {}).get("snaps", [])) for c in cases)
    routes = sum(len(s["routes"]) for c in cases for s in (c.get("impl") or {}).get("snaps", []))
    hist = [c for c in cases if c.get("k") == "history"]
    hsteps = sum(verdicts.get(c["id"], {}).get("info", {}).get("history_steps", 0) for c in hist)
    hpairs = sum(verdicts.get(c["id"], {}).get("info", {}).get("cache_pairs", 0) for c in hist)
    hobj = sum(1 for c in hist if c.get("sp", {}).get("objectives"))
    return {"operator_histories": len(hist), "operator_steps": hsteps, "operator_cache_pairs_compared": hpairs,
            "operator_histories_with_aggregate_objectives": hobj, "snapshots": snaps, "route_states_compared_with_lean_recompute": routes,
            "insertions_observed": snaps - len(cases)}


PROP = dict(
    proof_modules=["VrpProofs.C05", "VrpProofs.C05Order"], model_modules=["VrpModel.Route", "VrpModel.C06", "VrpModel.C05"],
    drv="drv_c05", bin="c05", compare=compare, nontrivial=nontrivial, extra_evidence=extra,
    rule="construction histories: 1-5 vehicles with feasible tours (metric and non-metric matrices, 1-2 capacity dimensions, distance or cost "
         "objective), 1-6 candidate jobs inserted by the real InsertionHeuristic; a wrapping InsertionEvaluator snapshots the context right "
         "after every applied insertion and at hand-over: bare tours, schedules, the H1 digest of every cached route/solution value, and the "
         "same after stripping the caches and recomputing. Operator histories (60 quick / 600 thorough, generator and execution shared "
         "with the C04 harness: every shipped search operator, pragen problems, those under explicit work-balance / compact-tour / soft "
         "tour-order objectives first): after every step every cached value per route (with its schedule), per solution, and the fitness "
         "is compared with strip-and-recompute, and no route may be handed over stale. "
         "Non-trivial: >= 2 insertions observed and a tour with >= 2 activities; a history with >= 10 steps. "
         "Distinct = SHA-256 of the canonical case input One deterministic scenario (group_refresh, finding S61): the group tag of a tour must read the same before and after a refresh of the tour's state.",
    modelled="update_route_schedule (update_schedules, update_states: latest arrival + future waiting, update_statistics), capacity "
             "recalculate_states (current/max-past/max-future), accept_insertion / accept_route_state / accept_solution_state stale protocol "
             "(abstractly), fitness as a function of caches",
    traced="cached values of every other feature (and the max-load ratio) are compared implementation-vs-implementation (strip + recompute); "
           "on operator histories all cached values are compared implementation-vs-implementation",
    out_of_model="recharge and shared-resource states, f64 rounding (integer data)",
    assumptions=["hook H1 renders cached values by downcasting to their plain stored types; values of unknown types render as <opaque>"],
)

META = dict(
    text="Proof (Lean 4), for any tour type, cache type and recompute function: under the stale-flag protocol (route_mut marks stale; "
         "accept_insertion refreshes the touched route; accept_route_state / accept_solution_state recompute stale routes and clear flags) "
         "every reachable state keeps `not stale => cache = recompute(tour)` (step_inv, run_inv), at hand-over every cache equals "
         "recomputation (handover_all_valid), objective values computed from caches are a function of the tours only "
         "(fitness_function_of_tours), recomputation is idempotent; one pass over the features in list order leaves in every written key a value "
         "that depends on the bare data only - whatever the caches held before - PROVIDED every feature reads bare data or keys written by earlier "
         "features (C05Order: pass_independent_of_stale, pass_idempotent; wrong_order_depends_on_stale is the shape of the repaired defects S40/S41). Tie: after EVERY applied insertion of real construction runs and at "
         "hand-over the real cached values (schedules, latest arrivals, waiting, totals, load profiles; hook H1) equal the Lean recomputation "
         "from the bare tour, and the real digest equals the real digest after discarding caches and recomputing (also solution-level state "
         "and fitness).",
    note=COMMON_NOTE + " The protocol theorem is about the abstract machine; that every mutation path of the real operators goes through "
         "route_mut is established by the traces (this check and C04), not by proof.",
    technique="Lean 4 invariant over operation sequences (stale-flag protocol) + exact differential correspondence of cached values with a Lean recompute",
)
