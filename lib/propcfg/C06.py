"""C06 — insertion evaluation agrees with brute-force simulation."""
import os, sys
sys.path.insert(0, os.path.dirname(os.path.dirname(os.path.abspath(__file__))))
from common_texts import COMMON_NOTE
from props import default_compare


def compare(case, verdict):
    r = default_compare(case, verdict)
    if verdict.get("model") is None and not (isinstance(case.get("impl"), dict) and "panic" in case["impl"]):
        # multi-task jobs: no executable model of eval_multi (greedy sequential search); oracle only
        r["agree"] = True
    return r


def nontrivial(case, v):
    impl = case.get("impl") or {}
    conc = impl.get("concrete") or []
    ok = sum(1 for c in conc if c is not None)
    return len(case.get("tour", [])) >= 2 and 0 < ok < len(conc)


def extra(cases, verdicts):
    n_open = sum(1 for c in cases if c["veh"]["end"] is None)
    ex = sum(1 for c in cases if verdicts.get(c["id"], {}).get("info", {}).get("exists_feasible"))
    anyok = sum(1 for c in cases if (c.get("impl") or {}).get("any") is not None)
    inthm = sum(1 for c in cases if verdicts.get(c["id"], {}).get("info", {}).get("in_completeness_theorem"))
    inthm_ex = sum(1 for c in cases if verdicts.get(c["id"], {}).get("info", {}).get("in_completeness_theorem")
                   and verdicts.get(c["id"], {}).get("info", {}).get("exists_feasible"))
    multiwin = sum(1 for c in cases if c.get("job") and sum(len(p["tws"]) for p in c["job"]["places"]) > 1)
    iv = [c for c in cases if c.get("k") == "iv"]
    ivinfo = lambda c: verdicts.get(c["id"], {}).get("info", {})
    iv_shape = {"cases_with_reload_markers": len(iv),
                "intervals_per_tour_hist": {str(k): sum(1 for c in iv if ivinfo(c).get("intervals") == k) for k in range(1, 6)},
                "within_hypotheses_of_interval_soundness_theorem": sum(1 for c in iv if ivinfo(c).get("in_soundness_theorem")),
                "with_a_feasible_position": sum(1 for c in iv if ivinfo(c).get("exists_feasible"))}
    return {"input_shape": {"open_tours": n_open, "closed_tours": len(cases) - n_open, "exists_feasible_position": ex,
                            "impl_any_success": anyok,
                            "cases_within_hypotheses_of_completeness_theorem": inthm,
                            "of_these_with_a_feasible_position": inthm_ex, "jobs_with_several_windows_or_places": multiwin, "reload_interval_stream": iv_shape,
                            "tour_len_hist": {str(k): sum(1 for c in cases if len(c["tour"]) == k) for k in range(0, 7)}}}


CLAIMED = True

PROP = dict(
    proof_modules=["VrpProofs.C06", "VrpProofs.C06Cap", "VrpProofs.C06CapVec", "VrpProofs.C06Complete", "VrpProofs.C06Multi", "VrpProofs.C06Iv"], model_modules=["VrpModel.Route", "VrpModel.C06", "VrpModel.C06Multi", "VrpModel.C06Iv"],
    drv="drv_c06", bin="c06", compare=compare, nontrivial=nontrivial, extra_evidence=extra,
    rule="tours of 0..6 activities feasible by construction (windows placed around the simulated arrival with slack 0..1000, "
         "capacity = max load + 0..5), open and closed, static/dynamic/replacement/mixed demand in 1-2 dimensions, candidate job with "
         "1-2 places x 1-3 windows (sorted or not); evaluated for Any and every Concrete(p). Non-trivial: tour has >= 2 activities and the "
         "job has both accepted and rejected positions. Distinct = SHA-256 of the canonical case input A third of the multi-task candidates have three tasks (two pickups and the delivery of both, or a pickup delivered in two parts).",
    modelled="TransportConstraint::evaluate_job/evaluate_activity, update_schedules/update_states (latest arrival), has_demand_violation + "
             "recalculate_states (without markers: C06; with reload markers, i.e. per route interval with the load carried across a reload, CapacitatedMultiTrip::recalculate_states / "
             "evaluate_activity / can_handle_demand_on_intervals and RouteIntervals::get_marker_intervals: C06Iv), eval_job_insertion_in_route/eval_single/analyze_insertion_in_route(_leg) with "
             "LegSelection::Exhaustive + BestResultSelector, route/activity cost layers (unassigned, tours, distance or cost)",
    traced="eval_multi (multi-task jobs): the greedy search itself is not modelled; its result is checked twice - the placements pass the "
           "simulation (soundness only, as the property states) and every step of the sequence is accepted by the model's activity-level "
           "evaluation on the tour that already holds the previous steps (acceptedSeq), for which soundness is a theorem (acceptedSeq_sound)",
    out_of_model="LegSelection::Stochastic sampling, time-dependent routing, dynamic demand of a non-multi job on tours with reload markers "
                 "(a shape the readers never produce), marker removal/promotion in accept_solution_state (C04/C05 histories), f64 rounding (integer data)",
    assumptions=["harness goal: features [min-unassigned, min-tours, transport(time constrained), capacity] in this order",
                 "capacity soundness is proved for any number of dimensions under WF n (all load vectors of a case have the same length, as "
                 "MultiDimLoad guarantees and the harness pads)"],
)

META = dict(
    text="Proof (Lean 4), tours of any length: the cached latest arrival is exact on a feasible tour (feas_iff_latestArr), hence the "
         "evaluator's O(1) time test accepts a position IFF the step-by-step simulation finds the tour with the job inserted feasible "
         "(evalTime_sound, evalTime_complete, evalTime_exact; no triangle inequality needed; the stop-pruning is unreachable on a feasible "
         "tour: evalTime_never_stops); the leg/place/window scan only returns placements the constraint model accepted (evalJob_accepted, "
         "evalJob_sound_time) and, for jobs without demand, is COMPLETE as a whole: if the simulation finds any feasible leg, place and window, Any "
         "succeeds - the stop verdict is unreachable at every leg, an accepted placement is never forgotten, the route-level test lets the job "
         "through (scanLegs_finds, evalRoute_of_feasible_time, evalJob_any_complete_time'), and for jobs WITH demand in any number of dimensions "
         "(C06Complete: hdv_none_of_components, cap_complete_vec, cap_exact_vec, static_clause_mono - the only stop verdict of the capacity test is monotone in the "
         "leg, so no leg before an admissible one stops the scan -, evalActivity_ok_of_feasible, route_precheck_vec, evalRoute_of_feasible, "
         "scanLegs_finds_upto, evalJob_any_complete; evalJob_any_complete_spec: existsFeasible => Any succeeds); sequences of insertions, each evaluated on the tour that already holds the previous "
         "ones (how eval_multi places pickup-and-delivery jobs): evalActivity_sound, acceptedSeq_sound, acceptedSeq_sound_hyps, pickup_delivery_sound "
         "(C06Multi: every accepted sequence ends in a tour the simulation finds feasible; an `example` shows the index bound i <= tour length is needed); tours with reload markers (C06Iv): capIv_sound (the interval test `none` for a static demand implies that the step-by-step simulation WITH reload "
         "events keeps every interval within capacity, any number of dimensions and intervals, carried load of any sign), evalJobIv_sound (whatever the scan "
         "returns passes the simulation), evalJobIv_noMarkers (without markers the interval evaluator IS the plain one); capacity: the test on cached max-past/max-future/current implies the full load profile stays within "
         "capacity for every demand shape, in every dimension (cap_sound1 for one dimension; cap_sound_vec for the executable vector model with any "
         "number of dimensions; cap_complete1 / cap_exact1: on a tour with non-negative loads and for demands without a static pickup next to a "
         "larger dynamic delivery the O(1) test refuses nothing the profile admits, the caches being attained - runMax1_attained, "
         "maxFuture1_attained; route_precheck_necessary: the route-level pre-check (static delivery part at the start, the rest at the end - the repair of S43) passes whenever the job is admissible at ANY position, so it never hides an admissible position; every component of the vector profile and caches IS the one-dimensional model, map_pr_loadProfile / "
         "map_pr_runMax / map_pr_maxFuture, and a vector verdict `none` gives the one-dimensional verdict in every component, viol1_of_vec). "
         "Tie: exact differential run (position, place, window, cost vector, schedule) of the real eval_job_insertion_in_route for Any and "
         "every Concrete(p) against the model, plus brute-force simulation oracles on the implementation's own placements (soundness for "
         "single and multi-task jobs, completeness of Any for single-task jobs).",
    note=COMMON_NOTE + " Whole-evaluator completeness for single-task jobs is a theorem (evalJob_any_complete, evalJob_any_complete_spec) under input "
         "hypotheses only: non-negative travel times and durations, a feasible base tour with non-negative loads, and in every dimension no "
         "static pickup next to a larger dynamic delivery (the shapes the readers produce; `example`s show that both capacity hypotheses are "
         "needed - without them the real O(1) test is incomplete by design). Partial: for multi-task jobs the greedy search of eval_multi is traced, not modelled (soundness of any accepted "
         "sequence is the theorem acceptedSeq_sound, applied to the implementation's own sequences by the oracle model_accepts_every_step), stochastic leg sampling is outside the model; on tours with reload markers completeness is decided by the oracle only "
         "(complete_any / complete_concrete held on every generated case).",
    technique="Lean 4 induction over tour suffixes (omega) + exact differential correspondence with the real evaluator + brute-force simulation oracle",
)
