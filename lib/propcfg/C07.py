"""C07 — interrupting the solver at any moment still yields a valid solution."""
import os, sys
sys.path.insert(0, os.path.dirname(os.path.dirname(os.path.abspath(__file__))))
from common_texts import COMMON_NOTE

CLAIMED = True


def compare(case, verdict):
    impl = case.get("impl")
    if isinstance(impl, dict) and "panic" in impl:
        return {"agree": False, "holds": False, "detail": "harness/solver panicked: " + str(impl["panic"])[:300]}
    info = verdict.get("info", {})
    if "skipped" in info:
        return {"skipped": True}
    bad = [k for k, v in verdict.get("oracle", {}).items() if v is False]
    return {"agree": True, "holds": not bad, "detail": ("oracle failed: " + ",".join(bad) + " " + str(info.get("bad"))[:600]) if bad else ""}


def nontrivial(case, v):
    return v.get("info", {}).get("runs", 0) >= 20


def extra(cases, verdicts):
    runs = sum(verdicts.get(c["id"], {}).get("info", {}).get("runs", 0) for c in cases)
    exh = sum(1 for c in cases if verdicts.get(c["id"], {}).get("info", {}).get("exhaustive"))
    polls = [verdicts.get(c["id"], {}).get("info", {}).get("total_polls") for c in cases]
    return {"interrupted_solver_runs": runs, "problems_with_every_poll_index_enumerated": exh, "total_polls_per_problem": polls,
            "max_generations_values": sorted({c["max_gens"] for c in cases})}


PROP = dict(
    proof_modules=["VrpProofs.C07", "VrpProofs.C02", "VrpProofs.Machine"],
    model_modules=["VrpModel.Machine", "VrpModel.C07", "VrpModel.Prag", "VrpModel.Spec"],
    drv="drv_c07", bin="c07", compare=compare, nontrivial=nontrivial, extra_evidence=extra,
    rule="pragen problems (4-10 jobs, random feature mix, metric) x max_generations in {1,2,3,10,25}; a counting Quota (public trait) turns "
         "true at its k-th poll and stays true; a first run counts the polls N, then EVERY k in 0..N is run (an even sample incl. 0,1,2,3,N-1,N "
         "when N exceeds the tier's limit) inside a fresh thread + single-thread pool with the repeatable random; every run must return Ok "
         "with a solution passing the Lean feasibility, partition and replay specifications and report generations <= max. Non-trivial: "
         ">= 20 interruption points. Distinct = SHA-256 of the canonical case input Three problems in ten are searched by one operator only (infeasible search over the default ruin-and-recreate operator, or redistribute; public constructors with the default parameters, 12 generations, denser poll sample).",
    modelled="control skeleton: InsertionHeuristic::process (prepare; loop while required and no quota; finalize + remove_empty_routes on every "
             "exit), Iterative::run loop guard with MaxGeneration",
    traced="the real solver at every poll index (construction, every search operator, decomposition, swap-star all poll the same quota)",
    out_of_model="wall-clock MaxTime termination (cannot be enumerated), thread scheduling (single-thread pool for reproducibility)",
    assumptions=["default solver configuration (rosomaxa population, dynamic hyper-heuristic) through VrpConfigBuilder"],
)

META = dict(
    text="Proof (Lean 4) for the control skeleton, every poll index k, every operator body: process always returns finalised (nothing pending, "
         "no job-less route, partition intact: process_finalizes), stops at the first poll that answers true (processLoop_stops_when_fired), "
         "and the evolution loop never exceeds the generation limit (generations_le_max). Tie / fault enumeration on the real solver: a "
         "counting quota fires at EVERY poll index of small problems; each interrupted run must return Ok with a solution that the Lean "
         "specifications of C01-C03 accept and with generations <= max.",
    note=COMMON_NOTE + " Wall-clock limits cannot be enumerated; multi-thread interruption is covered only through the C01 campaign's time-limited rows.",
    technique="Lean 4 theorems on the loop skeleton + exhaustive enumeration of quota poll indices on the real solver with Lean-defined validity oracles",
)
