"""C08 — check configuration (see lib/props.py for the fields) and manifest texts."""
import os, sys
sys.path.insert(0, os.path.dirname(os.path.dirname(os.path.abspath(__file__))))
from common_texts import COMMON_NOTE

CLAIMED = True


def _masked_impl(kind, impl, model):
    """the part of the implementation's output the model determines: the random part of select() (which
    individuals, in the exploration phase also how many) is judged by the oracle only; for whole runs the tape
    (what the run handed to the population) is an input of the model, not an output"""
    if kind == "vrp":
        return None  # trace only: the oracle judges, the model predicts nothing
    if kind == "solve":
        if isinstance(impl, dict):
            return {k: v for k, v in impl.items() if k != "tape"}
        return impl
    if not isinstance(impl, list) or not isinstance(model, list) or len(impl) != len(model):
        return impl
    out = []
    for i, m in zip(impl, model):
        i = dict(i)
        if isinstance(i.get("sel"), dict) and isinstance(m.get("sel"), dict):
            s = dict(i["sel"])
            for f in ("n", "ids"):
                if m["sel"].get(f) is None:
                    s[f] = None
            i["sel"] = s
        out.append(i)
    return out


def c08_compare(case, verdict):
    impl = case.get("impl")
    model = verdict.get("model")
    if isinstance(impl, dict) and "panic" in impl:
        return {"agree": False, "holds": False, "detail": "implementation panicked: " + str(impl["panic"])[:300]}
    agree = _masked_impl(case.get("k"), impl, model) == model
    oracle = verdict.get("oracle", {})
    bad = [k for k, v in oracle.items() if v is False]
    detail = ""
    if not agree:
        detail = "model and implementation differ"
    if bad:
        detail = "oracle failed: " + ",".join(sorted(bad))
    return {"agree": agree, "holds": (not bad), "detail": detail}


def c08_nontrivial(case, v):
    """the sequence changes the head at least once after the first individual and hits dedup or truncation
    (an add/add_all after which the population holds fewer individuals than it held plus what came in)"""
    k = case.get("k")
    impl = case.get("impl")
    if k == "vrp":
        return isinstance(impl, dict) and impl.get("cmp") == -1 and impl.get("init_tours", 0) >= 2
    if k == "solve":
        heads = [h[0] for h in impl.get("heads", []) if h]
        return len(set(heads)) >= 2
    if not isinstance(impl, list):
        return False
    head_changes, squeezed, prev = 0, False, None
    prev_size = 1 if (k == "greedy" and case["cfg"].get("init")) else 0
    if k == "greedy" and case["cfg"].get("init"):
        prev = case["cfg"]["init"][0]
    for op, o in zip(case["ops"], impl):
        head = o["ranked"][0][0] if o["ranked"] else None
        if prev is not None and head != prev:
            head_changes += 1
        prev = head
        incoming = 1 if op["o"] == "add" else len(op.get("xs", [])) if op["o"] == "add_all" else 0
        if incoming and o["size"] < prev_size + incoming:
            squeezed = True
        prev_size = o["size"]
    return head_changes >= 1 and squeezed


def c08_extra(cases, verdicts):
    from collections import Counter
    phases, kinds, later_better = Counter(), Counter(), 0
    for c in cases:
        kind = c.get("k") if c.get("k") != "solve" else "solve/" + str(c.get("pop"))
        kinds[kind] += 1
        if c.get("later_better") is True:
            later_better += 1
        if c.get("k") == "rosomaxa" and isinstance(c.get("impl"), list):
            for o in c["impl"]:
                phases[o["phase"]] += 1
    return {"populations": dict(kinds), "rosomaxa_observations_per_phase": {str(k): v for k, v in phases.items()},
            "greedy_cases_with_a_better_element_after_the_first_improving_one_of_a_batch": later_better}


PROP = dict(
    proof_modules=["VrpProofs.C08", "VrpProofs.C08.Basic", "VrpProofs.C08.Machine", "VrpProofs.C08.Elitism",
                   "VrpProofs.C08.ElitismStep", "VrpProofs.C08.Greedy", "VrpProofs.C08.Rosomaxa"], model_modules=["VrpModel.C08"], drv="drv_c08", bin="c08",
    compare=c08_compare, nontrivial=c08_nontrivial, extra_evidence=c08_extra,
    rule="operation sequences: the first ranked individual changes at least once after the first one and some add/add_all "
         "hits dedup or truncation (size after < size before + incoming); whole runs: the best known changes at least once; "
         "seeded VRP solves: the result is strictly better than the initial solution, which has at least 2 tours; "
         "distinct = SHA-256 of the canonical case input The scripted evolution runs call with_initial / with_init_solutions in both orders.",
    modelled="Greedy::{add,add_all,select,ranked,size}; Elitism::{add,add_all,add_with_iter,sort,dedup,truncate,is_improved,"
             "on_generation,select}; Rosomaxa::{add,add_all,is_comparable_with_best_known,update_phase,select,ranked,size,"
             "selection_phase} (elite + phase machine); TelemetryHeuristicContext::{on_initial,on_generation} and the result of "
             "Iterative::run as operation sequences",
    traced="whole runs of EvolutionSimulator + Iterative + TelemetryHeuristicContext with the real populations and a scripted "
           "hyper-heuristic: what the run handed to the population is recorded and replayed through the model; the VRP Solver "
           "seeded (with_init_solutions) with a solution written by write_pragmatic and read back by read_init_solution: the "
           "result is compared with the initial solution by the problem's own goal",
    out_of_model="GSOM network and node populations (what select() draws from nodes in the exploration phase, all()): C19; "
                 "which individuals the random generator picks inside select() (judged by the oracle: offered, non-empty, "
                 "best first); Elitism::{drain,set_max_population_size,maybe_change}; non-scalar/non-transitive objectives",
    assumptions=["individuals are rosomaxa::example::VectorSolution with integer fitness (|f| < 2^40) and weights [w, 7]; "
                 "the objective is the scalar VectorObjective (f64::total_cmp), i.e. a total preorder",
                 "speed ratios are multiples of 1/8, termination estimate and exploration ratio multiples of 1/64 (exact in f64)",
                 "valid configurations: max_population_size >= 1 (asserted by Elitism::new), Rosomaxa elite/node size >= 1, "
                 "selection_size >= 2, initial_size >= 4 (a smaller one makes Network::new fail: `expect(\"cannot create "
                 "network\")`), rebalance_memory >= 1, spread/distribution factor in (0,1)",
                 "Greedy::add_all hands every element of a batch to add (repair S35 of the short-circuiting "
                 "`acc || self.add(..)`); the oracle demands the full specification for Greedy too (best known <= every "
                 "element of every batch), corpus/C08/greedy_batch_skips_better.jsonl and the labelled generated cases "
                 "(later_better) are the inputs on which the old fold fails, mutants/C08-n-greedy-short-circuit.patch "
                 "reintroduces it"],
)

META = dict(
    text="Proof (Lean 4), for ANY total preorder as objective, any dedup function, any sizes and ANY sequence of add / add_all / "
         "on_generation / select (any random tape): the model of Elitism (stable sort, dedup_by keeping the earlier, truncate) and "
         "of the Rosomaxa elite (filter by comparable-with-best-known, then elite add_all) keeps as first ranked individual an "
         "offered individual that is no worse than everything ever offered; the ranking stays sorted, within the size bound, made "
         "of offered individuals; ticks and selections do not change it; add/add_all return true exactly when the best known "
         "strictly improved or appeared; select returns offered individuals, something whenever the population is non-empty, the "
         "best first; phases only move forward; a run seeded with initial solutions never ends with a worse first individual. "
         "Greedy (add_all hands every element to add): the same; for the short-circuiting fold /repo had before repair S35 a "
         "kernel-checked witness shows the loss that the oracle rejects. Tie: differential run of the real "
         "Greedy/Elitism/Rosomaxa (public HeuristicPopulation trait) against the model after every operation, the specification "
         "evaluated on the implementation's own observations, and whole runs of the real evolution loop replayed through the model.",
    note=COMMON_NOTE + " Out of model: GSOM node populations (C19), which individuals the random generator picks in select().",
    technique="Lean 4 theorems over lists (core mergeSort lemmas, induction over operation sequences) + differential "
              "correspondence of model and real populations, specification evaluated on the implementation's traces",
)
