"""C09 — check configuration (see lib/props.py for the fields) and manifest texts."""
import os, sys
sys.path.insert(0, os.path.dirname(os.path.dirname(os.path.abspath(__file__))))
from common_texts import COMMON_NOTE



def c09_nontrivial(case, v):
    k = case.get("k")
    if k in ("goal", "icmp"):
        m = case.get("impl")
        flat = [x for row in m for x in row]
        specials = {0, 1 << 63, 0x7ff0 << 48, 0xfff0 << 48, 0x7ff8 << 48}
        vals = []

        def walk(x):
            if isinstance(x, list):
                for y in x:
                    walk(y)
            else:
                vals.append(x)
        walk(case.get("vecs"))
        has_special = any((x in specials) or (x >> 52) & 0x7ff == 0x7ff for x in vals)
        lens = {len(x) for x in case.get("vecs")} if k == "icmp" else {0, 1}
        return any(x != 0 for x in flat) and (has_special or len(lens) > 1)
    if k == "iarith":
        return len(case["x"]) != len(case["y"]) and len(case["x"]) + len(case["y"]) > 0
    return k == "dom" and len(set(case["os"])) > 1


CLAIMED = True

PROP = dict(
    proof_modules=["VrpProofs.C09"], model_modules=["VrpModel.C09"], drv="drv_c09", bin="c09",
    nontrivial=c09_nontrivial,
    rule="goal/icmp: comparison matrix not all-equal and (a special value ±0/±inf/NaN occurs or the vectors have "
         "different lengths); iarith: vectors of different lengths; dom: at least two different orderings; "
         "distinct = SHA-256 of the canonical case input Stream realgoal (30 cases): a pragmatic problem whose minimize-unassigned objective weighs skipped breaks by a fraction, solved twice; fitness and comparison matrix of the real contexts re-evaluated 12 times.",
    modelled="Goal::total_order, GoalBuilder::add_single comparator, dominance_order, multi-objective layer composition, "
             "impl Ord/PartialEq/Add/Sub for InsertionCost (bit-exact comparison; exact integer arithmetic)",
    out_of_model="f64 rounding of + and - (the inverse law is proved over Int and checked on integer-valued vectors)",
    assumptions=["fitness values are planted through a test objective (public FeatureObjective trait); "
                 "arithmetic cases use integers below 2^41 so that f64 + and - are exact"],
)

META = dict(
    text="Proof (Lean 4): for ALL 64-bit float patterns and vectors/layer lists of any length — the single-layer comparator is "
         "compare on an integer key (total preorder; reflexive, antisymmetric, transitive), goals of any mix of single and dominance "
         "layers are reflexive and antisymmetric, single-layer goals equal lexicographic comparison with ±0 identified, dominance is "
         "provably not transitive (witness), InsertionCost::cmp is the lexicographic order of zero-padded vectors (total order laws, "
         "missing = 0), (x+y)-y = x component-wise over exact arithmetic. Tie: bit-exact differential run of the real "
         "GoalContext::total_order / dominance_order / InsertionCost operators against the model, and the order laws + lexicographic "
         "spec evaluated on the implementation's own comparison matrices.",
    note=COMMON_NOTE + " Out of model: f64 rounding of +/- (law proved over Int, checked on integer-valued vectors).",
    technique="Lean 4 theorems over UInt64 bit patterns (omega) + differential correspondence of model and real comparators",
)
