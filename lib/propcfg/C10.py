"""C10 — check configuration, translator T2 (source -> lean/VrpModel/Generated/C10Rules.lean) and manifest texts."""
import os, re, sys, json
sys.path.insert(0, os.path.dirname(os.path.dirname(os.path.abspath(__file__))))
from common_texts import COMMON_NOTE

ROOT = os.path.dirname(os.path.dirname(os.path.dirname(os.path.abspath(__file__))))
GEN = os.path.join(ROOT, "lean", "VrpModel", "Generated", "C10Rules.lean")

# files whose panic sites are inventoried (relative to vrp-pragmatic/src)
SITE_FILES = [
    "validation/mod.rs", "validation/common.rs", "validation/jobs.rs", "validation/vehicles.rs",
    "validation/relations.rs", "validation/routing.rs", "validation/objectives.rs",
    "format/problem/mod.rs", "format/problem/problem_reader.rs", "format/problem/fleet_reader.rs",
    "format/problem/job_reader.rs", "format/problem/goal_reader.rs", "format/problem/clustering_reader.rs",
    "format/coord_index.rs", "format/mod.rs", "lib.rs", "utils/approx_transportation.rs",
]
SITE_RE = re.compile(r"\.unwrap\(\)|\.expect\(|\bpanic!\(|\bassert!\(|\bassert_eq!\(|\bassert_ne!\(|\bdebug_assert!\(|"
                     r"\bunreachable!\(|\bunimplemented!\(|\btodo!\(|\b[a-z_][a-z0-9_.]*\[[a-z0-9_.]+\]|"
                     # calls of helpers that panic on bad input (defined in lib.rs, format/problem/mod.rs, job_reader.rs, vrp-core)
                     r"(?<!fn )\bparse_time\(|(?<!fn )\bparse_time_window\(|(?<!fn )\bparse_times\(|\bMultiDimLoad::new\b|\bCoreFleet::new\(")
GROUPS = [("jobs", "validation/jobs.rs"), ("vehicles", "validation/vehicles.rs"), ("objectives", "validation/objectives.rs"),
          ("routing", "validation/routing.rs"), ("relations", "validation/relations.rs")]


def _kind(tok):
    if tok.startswith(".unwrap"):
        return "unwrap"
    if tok.startswith(".expect"):
        return "expect"
    if tok.endswith("!("):
        return tok[:-2]
    if tok.startswith("parse_time") or tok.startswith("MultiDimLoad") or tok.startswith("CoreFleet"):
        return "call_" + tok.rstrip("(").replace("::", "_")
    return "index"


def _strip_comment(line):
    # good enough for these files: no `//` inside string literals on lines that also hold a panic site
    i = line.find("//")
    return line if i < 0 else line[:i]


def extract_sites(src_root):
    sites, missing = [], []
    for rel in SITE_FILES:
        path = os.path.join(src_root, rel)
        if not os.path.exists(path):
            missing.append(rel)
            continue
        fn = "<top>"
        counters = {}
        for line in open(path, encoding="utf-8"):
            code = _strip_comment(line)
            m = re.search(r"\bfn\s+([a-zA-Z_][a-zA-Z0-9_]*)", code)
            if m and not code.lstrip().startswith("//"):
                fn = m.group(1)
            if code.lstrip().startswith("#["):
                continue
            for tok in SITE_RE.findall(code):
                k = _kind(tok)
                key = (rel, fn, k)
                counters[key] = counters.get(key, 0) + 1
                sites.append(f"{rel}::{fn}::{k}#{counters[key]}")
    return sites, missing


def extract_wired(src_root):
    """rule functions wired into each combine_error_results(&[...]) and the order of the groups in validate()"""
    wired, missing = [], []
    for name, rel in GROUPS:
        path = os.path.join(src_root, rel)
        if not os.path.exists(path):
            missing.append(rel)
            continue
        src = open(path, encoding="utf-8").read()
        blocks = re.findall(r"combine_error_results\(&\[(.*?)\]\)", src, flags=re.S)
        if len(blocks) != 1:
            missing.append(rel + ": combine_error_results block")
            continue
        codes = ["E" + c for c in re.findall(r"check_e(\d{4})_", blocks[0])]
        defined = ["E" + c for c in re.findall(r"\bfn\s+check_e(\d{4})_", src)]
        wired.append((name, codes, defined))
    order = []
    mod = os.path.join(src_root, "validation/mod.rs")
    if os.path.exists(mod):
        m = re.search(r"pub fn validate\(&self\).*?\n    \}", open(mod, encoding="utf-8").read(), flags=re.S)
        if m:
            order = re.findall(r"validate_(\w+)\(self\)", m.group(0))
    if not order:
        missing.append("validation/mod.rs: validate()")
    return wired, order, missing


def extract_documented(repo):
    path = os.path.join(repo, "docs/src/concepts/pragmatic/errors/index.md")
    if not os.path.exists(path):
        return [], ["docs/src/concepts/pragmatic/errors/index.md"]
    return re.findall(r"^#### (E1\d{3})\s*$", open(path, encoding="utf-8").read(), flags=re.M), []


def _lean_list(xs):
    return "[" + ", ".join(json.dumps(x) for x in xs) + "]"


def translate_c10_rules():
    """T2: wired rule functions, documented codes and the panic-site inventory, as Lean data"""
    repo = os.environ.get("VERIF_REPO", "/repo")
    src_root = os.path.join(repo, "vrp-pragmatic", "src")
    wired, order, m1 = extract_wired(src_root)
    documented, m2 = extract_documented(repo)
    sites, m3 = extract_sites(src_root)
    missing = m1 + m2 + m3
    lines = ["/-! GENERATED by lib/propcfg/C10.py (translator T2) from the repository sources - do not edit. -/",
             "namespace C10.Generated", ""]
    lines.append(f"def extractionFailed : Bool := {'true' if missing else 'false'}")
    lines.append(f"def missingAnchors : List String := {_lean_list(missing)}")
    lines.append("")
    lines.append("/-- order of the `validate_*` groups chained in `ValidationContext::validate` -/")
    lines.append(f"def groupOrder : List String := {_lean_list(order)}")
    lines.append("/-- per group: the codes of the `check_eNNNN_*` calls inside `combine_error_results(&[..])`, in order -/")
    lines.append("def wiredRules : List (String × List String) := [")
    lines.append(",\n".join(f"  ({json.dumps(n)}, {_lean_list(c)})" for n, c, _ in wired))
    lines.append("]")
    lines.append("/-- per group: the `check_eNNNN_*` functions defined in the file -/")
    lines.append("def definedRules : List (String × List String) := [")
    lines.append(",\n".join(f"  ({json.dumps(n)}, {_lean_list(d)})" for n, _, d in wired))
    lines.append("]")
    lines.append("/-- `#### E1nnn` headings of docs/src/concepts/pragmatic/errors/index.md -/")
    lines.append(f"def documentedCodes : List String := {_lean_list(documented)}")
    lines.append("/-- panic-capable expressions (`unwrap()`, `expect(`, `panic!`, `assert*!`, `unreachable!`, indexing) of the")
    lines.append("    validation and reader files: file::function::kind#ordinal -/")
    lines.append("def panicSites : List String := [")
    lines.append(",\n".join("  " + json.dumps(x) for x in sites))
    lines.append("]")
    lines.append("")
    lines.append("end C10.Generated")
    text = "\n".join(lines) + "\n"
    os.makedirs(os.path.dirname(GEN), exist_ok=True)
    old = open(GEN).read() if os.path.exists(GEN) else None
    if old != text:
        with open(GEN, "w") as f:
            f.write(text)
    if missing:
        return False, "anchors missing: " + "; ".join(missing)
    return True, f"{sum(len(c) for _, c, _ in wired)} wired rules, {len(documented)} documented codes, {len(sites)} panic sites"


# ------------------------------------------------------------------------------------------------

OPTIONAL_SECTIONS = ("relations", "clustering", "resources", "objectives")


def _optional_sections(doc):
    n = sum(1 for k in OPTIONAL_SECTIONS if doc.get(k) is not None)
    shifts = [s for v in doc.get("vehicles", []) for s in v.get("shifts", [])]
    n += sum(1 for k in ("breaks", "reloads", "recharges") if any(s.get(k) is not None for s in shifts))
    jobs = doc.get("jobs", [])
    n += 1 if any(j.get("value2") is not None for j in jobs) else 0
    n += 1 if any(sum(len(j.get(k) or []) for k in "pdrs") > 1 for j in jobs) else 0
    n += 1 if any(j.get("skills") or j.get("group") or j.get("compat") for j in jobs) else 0
    return n


def c10_nontrivial(case, v):
    impl = case.get("impl") or {}
    if impl.get("codes"):
        return True
    return _optional_sections(case.get("doc", {})) >= 3


def c10_compare(case, v):
    """correspondence: the SET of E1xxx codes of the model equals the implementation's (E0xxx errors of the later
    mapping stages are out of model); oracle: every reported code names a documented rule the document breaks
    and every broken rule is reported (`Rules.violates` evaluated by the Lean driver); a panic always fails"""
    impl = case.get("impl")
    if isinstance(impl, dict) and "panic" in impl:
        return {"agree": False, "holds": False, "detail": "implementation panicked: " + str(impl["panic"])[:300]}
    model = v.get("model") or {}
    agree = sorted(impl.get("codes", [])) == sorted(model.get("codes", []))
    oracle = v.get("oracle", {})
    bad = sorted(k for k, x in oracle.items() if x is False)
    # accepted documents must satisfy every mapper precondition (second net for "never a crash")
    if not impl.get("codes") and v.get("mapper_safe") is False:
        bad.append("accepted_but_not_mapper_safe")
    detail = ""
    if not agree:
        detail = f"codes differ: impl {impl.get('codes')} model {model.get('codes')}"
    if bad:
        detail = "oracle failed: " + ",".join(bad) + f"; impl {impl.get('codes')} documented rules broken {v.get('violated')}"
    return {"agree": agree, "holds": not bad, "detail": detail}


def c10_extra(cases, verdicts):
    per_rule, per_mut, e0, entries = {}, {}, {}, {}
    accepted = panics = 0
    for c in cases:
        impl = c.get("impl") or {}
        entries[c.get("entry", "str")] = entries.get(c.get("entry", "str"), 0) + 1
        if "panic" in impl:
            panics += 1
            continue
        if not impl.get("codes"):
            accepted += 1
        for code in impl.get("codes", []):
            per_rule[code] = per_rule.get(code, 0) + 1
        for code in impl.get("e0", []):
            e0[code] = e0.get(code, 0) + 1
        for m in c.get("muts", []):
            k = m.split(":")[0]
            per_mut[k] = per_mut.get(k, 0) + 1
    return {"rule_hits": dict(sorted(per_rule.items())), "rules_hit": len(per_rule), "targeted_mutations": dict(sorted(per_mut.items())),
            "accepted_documents": accepted, "later_stage_errors_ignored": e0, "entry_points": entries, "panics": panics}


CLAIMED = True

PROP = dict(
    proof_modules=["VrpProofs.C10", "VrpProofs.C10.Rules", "VrpProofs.C10.Algo", "VrpProofs.C10.Windows", "VrpProofs.C10.Lists"], model_modules=["VrpModel.C10", "VrpModel.Generated.C10Rules"], drv="drv_c10", bin="c10",
    nontrivial=c10_nontrivial, compare=c10_compare, extra_evidence=c10_extra, translators=[translate_c10_rules],
    correspondence_name="C10 Validate.run vs ValidationContext::validate (set of E1xxx codes) on rendered documents",
    rule="a document is non-trivial if the real reader reports at least one E1xxx code, or accepts it and the document has at "
         "least 3 optional sections (relations, clustering, resources, objectives, breaks, reloads, recharges, values, "
         "multi-jobs, skills/group/compatibility); distinct = SHA-256 of the canonical case input; per-rule hit counts are in "
         "coverage.rule_hits",
    modelled="vrp-pragmatic/src/validation/{mod,common,jobs,vehicles,relations,routing,objectives}.rs (all 38 rule functions, "
             "CoordIndex::max_matrix_index/has_*), the documented rules of docs/src/concepts/pragmatic/errors/index.md, and one "
             "precondition per panic site of format/problem/{problem,fleet,job,goal}_reader.rs, parse_time(_window)",
    traced="PragmaticProblem::read_pragmatic for (String, Vec<String>), (ApiProblem, Vec<Matrix>) and String (approximation) "
           "entries, run in-process under catch_unwind on every generated document",
    out_of_model="JSON syntax and RFC 3339 parsing (timestamps are rendered from integers; one malformed token), E0xxx errors of "
                 "later mapping stages, custom (unknown) locations, objectives nested deeper than one multi-objective, "
                 "i32/f64 overflow and rounding, behaviour of the solver after reading",
    assumptions=["the harness renders the simplified document into the repository's serde structs and JSON text; integer "
                 "seconds are rendered as RFC 3339 UTC strings, the token 'bad' as 'not-a-date'",
                 "documents with more than 8 load dimensions (S21) or without any vehicle (S23) are kept out of the random "
                 "streams; their witnesses are corpus cases"],
)

META = dict(
    text="Proof (Lean 4): for ALL documents of the modelled shape, Validate.run (a line-by-line model of the 38 check_eNNNN "
         "functions) reports a code iff the document breaks the documented rule of that code (Rules.violates, written from the "
         "error index over a typed-task view): sort-then-adjacent window check = all windows well-formed and pairwise "
         "disjoint for any number of windows (E1103/E1302-E1304), demand balance per dimension (E1102), entry-map = two "
         "relations with different vehicles share a job (E1204), group counts (E1207), CoordIndex/matrix dimension (E1504), "
         "flattened objective tree (E1601-E1607), duplicates via seen-set = not Nodup; and run d = [] implies every "
         "panic-site precondition of the mapping code (MapperSafe) except the two reported findings (more than 8 load "
         "dimensions, empty fleet), whose counter-witnesses are kernel-checked. Generated obligations (translator T2): rule "
         "functions wired into each combine_error_results list = modelled rules, documented codes = modelled codes, "
         "panic-site inventory of validation and reader files = classified site table. Tie: typed document generator "
         "(valid documents with optional sections, targeted mutations reaching every rule, malformed-value stream) through "
         "the real read_pragmatic under catch_unwind; the set of codes is compared with the model and with the rules.",
    note=COMMON_NOTE + " Out of model: JSON/RFC 3339 parsing, E0xxx errors, custom locations, >1 level of objective nesting.",
    technique="Lean 4 theorems (list induction, omega, decide for generated obligations) + differential correspondence on rendered documents",
)
