"""C11 — check configuration, translator T1 (Rust serde definitions -> Lean schema) and manifest texts."""
import os, sys, re, json
sys.path.insert(0, os.path.dirname(os.path.dirname(os.path.abspath(__file__))))
from common_texts import COMMON_NOTE

VERIF = os.path.dirname(os.path.dirname(os.path.dirname(os.path.abspath(__file__))))
GENERATED = os.path.join(VERIF, "lean", "VrpModel", "Generated", "C11Schema.lean")

# ------------------------------------------------------------------------------------------------
# translator T1: struct/enum definitions + serde attributes  ->  def defs : List (String × Ty)

T1_SOURCES = [
    "vrp-pragmatic/src/format/problem/model.rs",
    "vrp-pragmatic/src/format/solution/model.rs",
    "vrp-pragmatic/src/format/mod.rs",
]
FLOAT_ALIAS = ("rosomaxa/src/utils/types.rs", r"pub\s+type\s+Float\s*=\s*f64\s*;")
ROOTS = ["Problem", "Matrix", "Solution"]
# types referenced from the anchored files but defined elsewhere with constructs outside the schema language
# (tuples, BTreeMap, tagged struct): declared as a type WITHOUT values, so the theorem covers exactly the
# documents in which the field is absent.
OUT_OF_MODEL_TYPES = {
    "FeatureCollection": "geojson (format/solution/geo_serializer.rs: tuples, BTreeMap, tagged struct) — "
                         "modelled as a type without values: only solutions with extras.features absent are covered",
}


class Fail(Exception):
    pass


def tokenize(src):
    toks = []
    i, n = 0, len(src)
    while i < n:
        c = src[i]
        if c.isspace():
            i += 1
        elif src.startswith("//", i):
            j = src.find("\n", i)
            i = n if j < 0 else j
        elif src.startswith("/*", i):
            depth, i = 1, i + 2
            while i < n and depth:
                if src.startswith("/*", i):
                    depth += 1; i += 2
                elif src.startswith("*/", i):
                    depth -= 1; i += 2
                else:
                    i += 1
        elif c == '"':
            j = i + 1
            buf = []
            while j < n and src[j] != '"':
                if src[j] == "\\":
                    buf.append(src[j:j + 2]); j += 2
                else:
                    buf.append(src[j]); j += 1
            toks.append(("str", "".join(buf)))
            i = j + 1
        elif src.startswith('r#"', i):
            j = src.find('"#', i + 3)
            toks.append(("str", src[i + 3:j]))
            i = j + 2
        elif src.startswith("r#", i) and (src[i + 2].isalpha() or src[i + 2] == "_"):
            j = i + 2
            while j < n and (src[j].isalnum() or src[j] == "_"):
                j += 1
            toks.append(("id", src[i + 2:j]))
            i = j
        elif c.isalpha() or c == "_":
            j = i
            while j < n and (src[j].isalnum() or src[j] == "_"):
                j += 1
            toks.append(("id", src[i:j]))
            i = j
        elif c == "'":
            # char literal or lifetime
            m = re.match(r"'(\\.|[^\\'])'", src[i:])
            if m:
                toks.append(("chr", m.group(0))); i += m.end()
            else:
                j = i + 1
                while j < n and (src[j].isalnum() or src[j] == "_"):
                    j += 1
                toks.append(("life", src[i:j])); i = j
        elif c.isdigit():
            j = i
            while j < n and (src[j].isalnum() or src[j] in "._"):
                j += 1
            toks.append(("num", src[i:j])); i = j
        else:
            for p in ("::", "->", "=>", "..=", "..", "==", "!=", "<=", ">=", "&&", "||"):
                if src.startswith(p, i):
                    toks.append(("p", p)); i += len(p); break
            else:
                toks.append(("p", c)); i += 1
    return toks


class P:
    def __init__(self, toks, fname):
        self.t, self.i, self.fname = toks, 0, fname

    def peek(self, k=0):
        return self.t[self.i + k] if self.i + k < len(self.t) else ("eof", "")

    def next(self):
        x = self.peek(); self.i += 1; return x

    def at(self, kind, val=None):
        x = self.peek()
        return x[0] == kind and (val is None or x[1] == val)

    def eat(self, kind, val=None):
        if self.at(kind, val):
            return self.next()
        raise Fail(f"{self.fname}: expected {val or kind} near token {self.i}: {self.t[max(0, self.i - 4):self.i + 3]}")

    def skip_balanced(self, open_, close):
        self.eat("p", open_)
        depth = 1
        while depth:
            k, v = self.next()
            if k == "eof":
                raise Fail(f"{self.fname}: unbalanced {open_}")
            if k == "p" and v == open_:
                depth += 1
            elif k == "p" and v == close:
                depth -= 1

    def attr(self):
        """#[ ... ]  ->  ('derive', [names]) | ('serde', meta-list) | ('other', name)"""
        self.eat("p", "#")
        inner = False
        if self.at("p", "!"):
            self.next(); inner = True
        start = self.i
        self.skip_balanced("[", "]")
        body = self.t[start + 1:self.i - 1]
        if not body:
            return ("other", "")
        name = body[0][1]
        if name == "derive":
            return ("derive", [v for k, v in body[2:-1] if k == "id"])
        if name == "serde":
            q = P(body[1:], self.fname)
            return ("serde", q.meta_list())
        return ("other", name)

    def meta_list(self):
        """( item, item, ... ) with item = name | name = "lit" | name( ... )"""
        out = []
        self.eat("p", "(")
        while not self.at("p", ")"):
            name = self.eat("id")[1]
            if self.at("p", "="):
                self.next()
                k, v = self.next()
                if k != "str":
                    raise Fail(f"{self.fname}: serde attribute {name} = non-string")
                out.append((name, v))
            elif self.at("p", "("):
                out.append((name, self.meta_list()))
            else:
                out.append((name, None))
            if self.at("p", ","):
                self.next()
        self.eat("p", ")")
        return out

    def ty(self):
        if self.at("p", "("):
            self.next()
            items = []
            while not self.at("p", ")"):
                items.append(self.ty())
                if self.at("p", ","):
                    self.next()
            self.eat("p", ")")
            return ("tuple", items)
        if self.at("p", "&") or self.at("life") or self.at("p", "["):
            raise Fail(f"{self.fname}: reference/array type not understood")
        path = [self.eat("id")[1]]
        while self.at("p", "::"):
            self.next(); path.append(self.eat("id")[1])
        args = []
        if self.at("p", "<"):
            self.next()
            while not self.at("p", ">"):
                args.append(self.ty())
                if self.at("p", ","):
                    self.next()
            self.eat("p", ">")
        return ("path", path[-1], args)

    def fields(self):
        """{ attrs vis name : ty , ... }"""
        out = []
        self.eat("p", "{")
        while not self.at("p", "}"):
            attrs = []
            while self.at("p", "#"):
                attrs.append(self.attr())
            if self.at("id", "pub"):
                self.next()
                if self.at("p", "("):
                    self.skip_balanced("(", ")")
            name = self.eat("id")[1]
            self.eat("p", ":")
            t = self.ty()
            out.append((name, t, attrs))
            if self.at("p", ","):
                self.next()
        self.eat("p", "}")
        return out

    def items(self):
        """top-level items; returns list of dicts for struct / enum / type alias"""
        out = []
        attrs = []
        while not self.at("eof"):
            if self.at("p", "#"):
                attrs.append(self.attr()); continue
            if self.at("id", "pub"):
                self.next()
                if self.at("p", "("):
                    self.skip_balanced("(", ")")
                continue
            k, v = self.peek()
            if k == "id" and v == "struct":
                self.next()
                name = self.eat("id")[1]
                if self.at("p", "<"):
                    raise Fail(f"{self.fname}: generic struct {name} not understood")
                if self.at("p", "{"):
                    out.append(dict(kind="struct", name=name, attrs=attrs, fields=self.fields()))
                elif self.at("p", "("):
                    self.skip_balanced("(", ")")
                    self.eat("p", ";")
                    out.append(dict(kind="tuple_struct", name=name, attrs=attrs))
                else:
                    self.eat("p", ";")
                    out.append(dict(kind="unit_struct", name=name, attrs=attrs))
                attrs = []
            elif k == "id" and v == "enum":
                self.next()
                name = self.eat("id")[1]
                if self.at("p", "<"):
                    raise Fail(f"{self.fname}: generic enum {name} not understood")
                variants = []
                self.eat("p", "{")
                while not self.at("p", "}"):
                    vattrs = []
                    while self.at("p", "#"):
                        vattrs.append(self.attr())
                    vname = self.eat("id")[1]
                    if self.at("p", "{"):
                        variants.append(dict(name=vname, attrs=vattrs, shape="struct", fields=self.fields()))
                    elif self.at("p", "("):
                        self.next()
                        tys = []
                        while not self.at("p", ")"):
                            while self.at("p", "#"):
                                raise Fail(f"{self.fname}: attribute inside tuple variant {name}::{vname}")
                            tys.append(self.ty())
                            if self.at("p", ","):
                                self.next()
                        self.eat("p", ")")
                        variants.append(dict(name=vname, attrs=vattrs, shape="tuple", tys=tys))
                    else:
                        variants.append(dict(name=vname, attrs=vattrs, shape="unit"))
                    if self.at("p", "="):
                        raise Fail(f"{self.fname}: explicit discriminant in {name}")
                    if self.at("p", ","):
                        self.next()
                self.eat("p", "}")
                out.append(dict(kind="enum", name=name, attrs=attrs, variants=variants))
                attrs = []
            elif k == "id" and v == "type":
                self.next()
                name = self.eat("id")[1]
                if self.at("p", "<"):
                    raise Fail(f"{self.fname}: generic alias {name}")
                self.eat("p", "=")
                t = self.ty()
                self.eat("p", ";")
                out.append(dict(kind="alias", name=name, ty=t, attrs=attrs))
                attrs = []
            elif k == "id" and v in ("use", "extern", "const", "static"):
                while not self.at("p", ";"):
                    if self.at("p", "{"):
                        self.skip_balanced("{", "}")
                    elif self.at("eof"):
                        raise Fail(f"{self.fname}: unterminated {v}")
                    else:
                        self.next()
                self.next(); attrs = []
            elif k == "id" and v in ("impl", "fn", "mod", "trait", "unsafe", "async", "macro_rules"):
                # skip to the body / semicolon
                while not (self.at("p", "{") or self.at("p", ";")):
                    if self.at("eof"):
                        raise Fail(f"{self.fname}: unterminated {v}")
                    if self.at("p", "("):
                        self.skip_balanced("(", ")")
                    else:
                        self.next()
                if self.at("p", "{"):
                    self.skip_balanced("{", "}")
                else:
                    self.next()
                attrs = []
            elif k == "id" and self.peek(1) == ("p", "!"):
                # macro invocation item:  name!( ... );  or name!{ ... }
                self.next(); self.next()
                if self.at("p", "("):
                    self.skip_balanced("(", ")")
                    if self.at("p", ";"):
                        self.next()
                elif self.at("p", "{"):
                    self.skip_balanced("{", "}")
                elif self.at("p", "["):
                    self.skip_balanced("[", "]")
                    if self.at("p", ";"):
                        self.next()
                attrs = []
            else:
                raise Fail(f"{self.fname}: item not understood near {self.t[self.i:self.i + 5]}")
        return out


# --- serde naming rules (serde_derive/src/internals/case.rs) -------------------------------------

def _variant_to_snake(v):
    out = []
    for i, ch in enumerate(v):
        if i > 0 and ch.isupper():
            out.append("_")
        out.append(ch.lower())
    return "".join(out)


def rename_variant(rule, v):
    if rule is None or rule == "PascalCase":
        return v
    if rule == "lowercase":
        return v.lower()
    if rule == "UPPERCASE":
        return v.upper()
    if rule == "camelCase":
        return v[:1].lower() + v[1:]
    if rule == "snake_case":
        return _variant_to_snake(v)
    if rule == "SCREAMING_SNAKE_CASE":
        return _variant_to_snake(v).upper()
    if rule == "kebab-case":
        return _variant_to_snake(v).replace("_", "-")
    if rule == "SCREAMING-KEBAB-CASE":
        return _variant_to_snake(v).upper().replace("_", "-")
    raise Fail(f"rename_all rule {rule!r} not understood")


def rename_field(rule, f):
    if rule is None or rule in ("lowercase", "snake_case"):
        return f
    if rule == "UPPERCASE":
        return f.upper()
    if rule == "PascalCase" or rule == "camelCase":
        out, cap = [], True
        for ch in f:
            if ch == "_":
                cap = True
            elif cap:
                out.append(ch.upper()); cap = False
            else:
                out.append(ch)
        s = "".join(out)
        return s if rule == "PascalCase" else s[:1].lower() + s[1:]
    if rule == "SCREAMING_SNAKE_CASE":
        return f.upper()
    if rule == "kebab-case":
        return f.replace("_", "-")
    if rule == "SCREAMING-KEBAB-CASE":
        return f.upper().replace("_", "-")
    raise Fail(f"rename_all rule {rule!r} not understood")


def serde_items(attrs):
    out = []
    for kind, body in attrs:
        if kind == "serde":
            out.extend(body)
    return out


def derives(attrs):
    d = set()
    for kind, body in attrs:
        if kind == "derive":
            d.update(body)
    return d


def lean_str(s):
    return '"' + s.replace("\\", "\\\\").replace('"', '\\"') + '"'


PRIMS = {"String": "str", "f64": "flt", "Float": "flt", "i64": "int", "i32": "i32", "usize": "nat", "u64": "nat",
         "bool": "bool"}
DEFAULT_OF_PRIM = {"str": '.str ""', "flt": ".flt 0", "int": ".int 0", "i32": ".int 0", "nat": ".int 0",
                   "bool": ".bool false"}


class Schema:
    def __init__(self, items):
        self.items = {}
        for it in items:
            if it["name"] in self.items:
                raise Fail(f"type {it['name']} defined twice in the anchored files")
            self.items[it["name"]] = it

    def resolve_alias(self, name, depth=0):
        it = self.items.get(name)
        if it and it["kind"] == "alias" and depth < 8:
            t = it["ty"]
            if t[0] == "path" and not t[2] and t[1] not in PRIMS:
                return self.resolve_alias(t[1], depth + 1)
        return name

    def ty(self, t, where):
        if t[0] == "tuple":
            raise Fail(f"{where}: tuple type not understood")
        _, name, args = t
        if name in PRIMS and not args:
            return f".prim .{PRIMS[name]}"
        if name == "Option" and len(args) == 1:
            return f".opt ({self.ty(args[0], where)})"
        if name == "Vec" and len(args) == 1:
            return f".vec ({self.ty(args[0], where)})"
        if args:
            raise Fail(f"{where}: generic type {name}<…> not understood")
        it = self.items.get(name)
        if it is not None and it["kind"] == "alias":
            return self.ty(it["ty"], where)
        if it is not None or name in OUT_OF_MODEL_TYPES:
            return f".ref {lean_str(name)}"
        raise Fail(f"{where}: type {name} is not defined in the anchored files")

    def default_of(self, t, where):
        _, name, args = t if t[0] == "path" else (None, None, None)
        if name in PRIMS and not args:
            return DEFAULT_OF_PRIM[PRIMS[name]]
        if name == "Option":
            return ".nul"
        if name == "Vec":
            return ".list []"
        raise Fail(f"{where}: #[serde(default)] on type {name} not understood")

    def field(self, f, rule, where):
        name, t, attrs = f
        where = f"{where}.{name}"
        ser = de = None
        aliases, skip, dflt = [], False, None
        for k, v in serde_items(attrs):
            if k == "rename":
                if isinstance(v, list):
                    d = dict(v)
                    if set(d) - {"serialize", "deserialize"}:
                        raise Fail(f"{where}: rename(...) not understood")
                    ser, de = d.get("serialize"), d.get("deserialize")
                else:
                    ser = de = v
            elif k == "alias":
                aliases.append(v)
            elif k == "skip_serializing_if":
                if v != "Option::is_none":
                    raise Fail(f"{where}: skip_serializing_if = {v!r} is outside the model (only Option::is_none)")
                if not (t[0] == "path" and t[1] == "Option"):
                    raise Fail(f"{where}: skip_serializing_if on a non-Option field")
                skip = True
            elif k == "default":
                if v is None:
                    dflt = self.default_of(t, where)
                elif isinstance(v, str) and re.fullmatch(r"(\w+)::default", v) and t[0] == "path" and \
                        v.split("::")[0] == t[1]:
                    dflt = self.default_of(t, where)
                else:
                    raise Fail(f"{where}: default = {v!r} not understood")
            else:
                raise Fail(f"{where}: serde field attribute {k!r} not understood")
        auto = rename_field(rule, name)
        ser = ser if ser is not None else auto
        de = de if de is not None else auto
        if ser != de:
            raise Fail(f"{where}: serialises as {ser!r} but deserialises from {de!r} — not expressible "
                       f"(the written document would not be read back)")
        if skip and dflt is not None:
            raise Fail(f"{where}: skip_serializing_if together with default")
        ty = self.ty(t, where)
        if not aliases and dflt is None:
            hdr = f"{'fs' if skip else 'fh'} {lean_str(ser)}"
        else:
            al = "[" + ", ".join(lean_str(a) for a in aliases) + "]"
            hdr = f"fx {lean_str(ser)} {al} {'true' if skip else 'false'} {'none' if dflt is None else f'(some ({dflt}))'}"
        return f"({hdr}, {ty})"

    def fields(self, fs, rule, where):
        return "[" + ", ".join(self.field(f, rule, where) for f in fs) + "]"

    def container(self, it):
        tag = None
        untagged = False
        rule = None
        rule_fields = None
        for k, v in serde_items(it["attrs"]):
            if k == "tag" and isinstance(v, str):
                tag = v
            elif k == "untagged" and v is None:
                untagged = True
            elif k == "rename_all" and isinstance(v, str):
                rule = v
            elif k == "rename_all_fields" and isinstance(v, str):
                rule_fields = v
            else:
                raise Fail(f"{it['name']}: serde container attribute {k!r} not understood")
        return tag, untagged, rule, rule_fields

    def variant_name(self, v, rule, where):
        ser = de = None
        for k, val in serde_items(v["attrs"]):
            if k == "rename":
                if isinstance(val, list):
                    d = dict(val)
                    if set(d) - {"serialize", "deserialize"}:
                        raise Fail(f"{where}: rename(...) not understood")
                    ser, de = d.get("serialize"), d.get("deserialize")
                else:
                    ser = de = val
            else:
                raise Fail(f"{where}: serde variant attribute {k!r} not understood")
        auto = rename_variant(rule, v["name"])
        ser = ser if ser is not None else auto
        de = de if de is not None else auto
        if ser != de:
            raise Fail(f"{where}: variant serialises as {ser!r} but deserialises from {de!r}")
        return ser

    def item(self, it):
        name = it["name"]
        tag, untagged, rule, rule_fields = self.container(it)
        if it["kind"] == "struct":
            if tag or untagged:
                raise Fail(f"{name}: tag/untagged on a struct not understood")
            return f".struct {self.fields(it['fields'], rule, name)}"
        if it["kind"] != "enum":
            raise Fail(f"{name}: {it['kind']} not understood")
        vs = it["variants"]
        if untagged:
            if tag:
                raise Fail(f"{name}: tag and untagged")
            out = []
            for v in vs:
                where = f"{name}::{v['name']}"
                if serde_items(v["attrs"]):
                    raise Fail(f"{where}: attributes on an untagged variant not understood")
                if v["shape"] == "tuple" and len(v["tys"]) == 1:
                    out.append(self.ty(v["tys"][0], where))
                elif v["shape"] == "struct":
                    out.append(f".struct {self.fields(v['fields'], rule_fields, where)}")
                else:
                    raise Fail(f"{where}: unit/tuple variant of an untagged enum not understood")
            return ".untagged [\n      " + ",\n      ".join(out) + "]"
        if tag:
            out = []
            for v in vs:
                where = f"{name}::{v['name']}"
                vn = self.variant_name(v, rule, where)
                if v["shape"] == "unit":
                    out.append(f"({lean_str(vn)}, [])")
                elif v["shape"] == "struct":
                    out.append(f"({lean_str(vn)}, {self.fields(v['fields'], rule_fields, where)})")
                else:
                    raise Fail(f"{where}: newtype variant of an internally tagged enum not understood")
            return f".tagged {lean_str(tag)} [\n      " + ",\n      ".join(out) + "]"
        if all(v["shape"] == "unit" for v in vs):
            return ".units [" + ", ".join(lean_str(self.variant_name(v, rule, f"{name}::{v['name']}")) for v in vs) + "]"
        raise Fail(f"{name}: externally tagged enum with data not understood")


def t1_extract(repo):
    """returns (lean_text, ok, msg)"""
    items = []
    try:
        path, pat = FLOAT_ALIAS
        if not re.search(pat, open(os.path.join(repo, path)).read()):
            raise Fail(f"{path}: `pub type Float = f64;` not found")
        for rel in T1_SOURCES:
            src = open(os.path.join(repo, rel)).read()
            its = P(tokenize(src), rel).items()
            for it in its:
                d = derives(it["attrs"])
                if it["kind"] == "alias":
                    items.append(it)
                elif "Serialize" in d and "Deserialize" in d:
                    items.append(it)
                elif ("Serialize" in d) != ("Deserialize" in d) and rel != "vrp-pragmatic/src/format/mod.rs":
                    raise Fail(f"{rel}: {it['name']} derives only one of Serialize/Deserialize")
        sch = Schema(items)
        lines = []
        count = 0
        for it in items:
            if it["kind"] == "alias":
                continue
            lines.append(f"  ({lean_str(it['name'])}, {sch.item(it)})")
            count += 1
        for name, why in OUT_OF_MODEL_TYPES.items():
            if name in sch.items:
                raise Fail(f"{name} is declared out of model but defined in the anchored files")
            lines.append(f"  -- {why}\n  ({lean_str(name)}, .units [])")
        for r in ROOTS:
            if r not in sch.items:
                raise Fail(f"root type {r} not found")
        body = ",\n".join(lines)
        ok, msg = True, f"{count} types from {len(T1_SOURCES)} files"
    except (Fail, OSError, IndexError) as e:  # IndexError: ran off the token list
        body = ""
        ok, msg = False, f"extraction failed: {e}"
    txt = ("import VrpModel.C11\n"
           "/-! GENERATED by translator T1 (lib/propcfg/C11.py) from the serde definitions of\n"
           "    " + ", ".join(T1_SOURCES) + ".\n"
           "    DO NOT EDIT: regenerated (and rewritten only when the content changes) on every `./check C11`. -/\n"
           "namespace C11.Generated\nopen C11\n\n"
           f"def extractionOk : Bool := {'true' if ok else 'false'}\n"
           f"def extractionMsg : String := {lean_str(msg)}\n\n"
           "def roots : List String := [" + ", ".join(lean_str(r) for r in ROOTS) + "]\n\n"
           "def defs : List (String × Ty) := [\n" + body + "\n]\n\n"
           "end C11.Generated\n")
    return txt, ok, msg


def translator_T1():
    repo = os.environ.get("VERIF_REPO", "/repo")
    txt, ok, msg = t1_extract(repo)
    old = open(GENERATED).read() if os.path.exists(GENERATED) else None
    if old != txt:
        os.makedirs(os.path.dirname(GENERATED), exist_ok=True)
        tmp = GENERATED + ".tmp%d" % os.getpid()
        with open(tmp, "w") as f:
            f.write(txt)
        os.replace(tmp, GENERATED)
        msg += " (schema file rewritten)"
    return ok, "T1 serde schema: " + msg


translator_T1.__name__ = "T1_serde_schema"

if __name__ == "__main__":
    print(translator_T1())


# ------------------------------------------------------------------------------------------------
# check configuration


def c11_compare(case, verdict):
    impl = case.get("impl")
    model = verdict.get("model")
    oracle = verdict.get("oracle", {})
    bad = sorted(k for k, v in oracle.items() if v is False)
    if isinstance(impl, dict) and "panic" in impl:
        return {"agree": False, "holds": False, "detail": "implementation panicked: " + str(impl["panic"])[:300]}
    if isinstance(impl, dict) and "error" in impl:
        return {"agree": False, "holds": None, "detail": "harness error: " + str(impl["error"])[:300]}
    k = case.get("k")
    if k == "init":
        if not isinstance(impl, dict) or "trace" not in impl:
            # invalid generated problem / inexact times: nothing to compare (raw-problem cases carry a trace)
            return {"agree": None, "holds": None, "detail": "no trace", "skipped": True}
        # impl.trace (the solver's core solution) is the model's input; everything else is compared
        agree = {k_: v_ for k_, v_ in impl.items() if k_ != "trace"} == model
    elif k == "csv":
        # `reads` (the complete real reader on the imported document) exists on the real side only
        agree = {k_: v_ for k_, v_ in impl.items() if k_ != "reads"} == model if isinstance(impl, dict) else False
    elif k == "fbits":
        # arbitrary float bit patterns: f64 text printing/parsing is out of model; only acceptance is compared,
        # the 1-ulp oracle is evaluated on the real output
        agree = isinstance(impl, dict) and isinstance(model, dict) and impl.get("ok") == model.get("ok")
    else:
        # value_ok (parse(ser d) == d through the derived Debug rendering) exists on the real side only
        agree = {k_: v_ for k_, v_ in impl.items() if k_ != "value_ok"} == model if isinstance(impl, dict) else impl == model
    detail = ""
    if not agree:
        detail = "model and implementation differ"
    if bad:
        detail = "oracle failed: " + ",".join(bad)
    return {"agree": agree, "holds": (not bad), "detail": detail}


def c11_nontrivial(case, v):
    k = case.get("k")
    if k in ("rt", "fbits", "foreign"):
        txt = json.dumps(case.get("doc"))
        if case.get("root") == "Matrix":
            return len(txt) > 120
        # exercises an optional field that is present, a tagged and an untagged enum
        return ('"type"' in txt) and ('"index"' in txt or '"lat"' in txt) and ('"tag"' in txt or '"jobTag"' in txt or '"latest"' in txt)
    if k == "init":
        impl = case.get("impl") or {}
        tr = impl.get("trace") or {}
        acts = [a for t in tr.get("tours", []) for a in t.get("acts", [])]
        # a tour serves a multi-task job or an alternative place, or uses a reload / break
        return any(a.get("task", 0) > 0 or a.get("place", 0) > 0 or a.get("kind") in ("reload", "break") for a in acts)
    if k == "csv":
        ids = [r.get("id") for r in case.get("jobs", [])]
        profiles = [r.get("profile") for r in case.get("vehicles", [])]
        # rows sharing a job id, or vehicle rows sharing a profile
        return len(set(ids)) < len(ids) or len(set(profiles)) < len(profiles)
    return True


def c11_extra_evidence(cases, verdicts):
    hyp_in = sum(1 for c in cases if c.get("k") == "init" and (verdicts.get(c["id"]) or {}).get("hyp") is True)
    hyp_out = sum(1 for c in cases if c.get("k") == "init" and (verdicts.get(c["id"]) or {}).get("hyp") is False)
    csv_in = sum(1 for c in cases if c.get("k") == "csv" and (verdicts.get(c["id"]) or {}).get("hyp") is True)
    csv_out = sum(1 for c in cases if c.get("k") == "csv" and (verdicts.get(c["id"]) or {}).get("hyp") is False)
    oor = sum(1 for c in cases if c.get("k") == "init" and isinstance(c.get("impl"), dict) and c["impl"].get("schedule_out_of_range"))
    return {"init_runs_skipped_solver_schedule_at_f64_max": oor, "init_cases_inside_theorem_hypotheses": hyp_in, "init_cases_outside_hypotheses_model_only": hyp_out,
            "csv_cases_inside_TablesOk": csv_in, "csv_cases_outside_TablesOk_model_only": csv_out}


PROP = dict(
    proof_modules=["VrpProofs.C11", "VrpProofs.C11.Init", "VrpProofs.C11.Csv"],
    model_modules=["VrpModel.C11", "VrpModel.C11Init", "VrpModel.C11Csv", "VrpModel.Generated.C11Schema",
                   "VrpProofs.C11.Codec", "VrpProofs.C11.Safe", "VrpProofs.C11.WF"],
    drv="drv_c11", bin="c11",
    translators=[translator_T1],
    compare=c11_compare,
    nontrivial=c11_nontrivial,
    extra_evidence=c11_extra_evidence,
    rule="rt/fbits/foreign: the document has a present optional field, an internally tagged enum and an untagged enum "
         "(matrix: non-empty); init: a tour serves a multi-task job, an alternative place, a reload or a break; csv: rows share "
         "a job id or vehicle rows share a profile; distinct = SHA-256 of the canonical case input",
    modelled="(1) serde derive + serde_json for every struct/enum of format/problem/model.rs, format/solution/model.rs and "
             "Location/CustomLocationType (schema regenerated by translator T1): field order and names (rename, rename_all), "
             "aliases, skip_serializing_if=Option::is_none, default, Option/Vec, internally tagged / untagged / unit enums, "
             "integer vs float tokens, i32/i64/usize ranges, unknown fields ignored, missing-field rules. "
             "(2) solution_writer::create_tour activity output (stops as runs at one location, jobId/type/jobTag of the used place, "
             "activity interval, departure activity, single-activity clean-up) + create_unassigned; activity_matcher "
             "try_match_point_job / match_place (tag of the candidate place, location, window intersection, id rule), vehicle-bound "
             "job lookup with the duration preference, get_route_start_time; initial_reader bookkeeping (added_jobs, double "
             "assignment, unassigned list). (3) csv.rs read_csv_problem (typed rows, parse_tw, grouping by ID and sign, vehicle ids, "
             "shifts, profiles) + the validation rules E1100/E1102/E1103/E1104/E1300/E1301/E1302/E1501",
    traced="(2) runs on the core solutions of the real solver (pragen problems: multi-task jobs and alternative places with tags, "
           "reloads, optional breaks; no clustering): the trace is the model's input, the written document and the re-read "
           "solution are compared with the model's",
    out_of_model="f64 text printing/parsing (real side only: 1-ulp oracle on arbitrary bit patterns within 1e-5..1e30); duplicate "
                 "keys; struct or enum given as JSON array; tag given as variant index; non-finite floats; extras.features "
                 "(geojson) — covered only when absent; required breaks / transit stops (S31) and clustering (commute) in the "
                 "initial-solution round trip; statistics, loads and times of the re-read solution (recomputed by the solver); "
                 "CSV text syntax (quoting), order of jobs and profiles after import (hash containers; compared sorted)",
    assumptions=["documents contain finite floats only (serde_json writes null for NaN/inf)",
                 "Solution.extras.features (geojson FeatureCollection, defined outside the anchored files) is absent",
                 "initial-solution theorem: hypotheses initHyp (unique job ids; places of a customer job differ in tag, location "
                 "or windows further apart than the duration; multi-jobs carry at least as many distinct tags as tasks; every "
                 "customer activity is served at its place inside a window; vehicle-bound activities resolve to their own marker "
                 "job — distinct tags for several reloads of one shift; every customer job served or unassigned); evaluated on "
                 "every run, cases outside are compared with the model only",
                 "CSV: the rendering of a vehicle id \"{ID}_{seq}\" is injective (seq is a decimal numeral); TablesOk as listed in "
                 "csv_import_valid_partial; trace times are multiples of 1/4 s (pragen scales by fractions with denominator <= 4)"],
    timeout={"quick": 900, "thorough": 7200},
)

META = dict(
    text="Proof (Lean 4) in three parts. (1) A schema-directed model of serde derive + serde_json (struct / Option / Vec / "
         "internally tagged / untagged / unit enums, rename, alias, skip_serializing_if, default; distinct integer and float tokens) "
         "with the theorem ser(parse(ser d)) = ser d for EVERY document of every nesting depth, under a decidable schema condition "
         "whose soundness is proved (incl. untagged variant ordering); the schema is regenerated from the Rust definitions by "
         "translator T1 and the condition is re-proved by `decide` on every run (56 types). (2) init_roundtrip_partial: writing a "
         "solution and reading it back as initial solution succeeds and gives the same customer-job activities per vehicle shift, in "
         "order, with the same task and place index and location, and the same unassigned customer set — for all problems and "
         "solutions satisfying the executable hypotheses (places distinguishable by tag, location or separated windows; no required "
         "breaks). (3) csv_import_valid_partial / csv_import_carries_data: an import inside TablesOk passes the structural validation "
         "rules and the document carries exactly the tables' rows (multiset of job rows, list of vehicle rows, set of profiles). "
         "Tie: typed generator of the real serde structs -> real serialize/deserialize vs the model on identical token trees, a "
         "foreign-JSON stream (aliases, nulls, extra/missing fields, integer-for-float, wrong kinds) for the decode side, value-level "
         "parse(ser d) = d through Debug; solver -> write_pragmatic -> real read_init_solution vs the model of writer+reader on the "
         "real trace; generated tables -> real CSV import -> real validation + read_pragmatic vs the model.",
    note=COMMON_NOTE + " Known findings carried as fixed corpus cases: S31 (required break as transit stop cannot be read back), "
         "N10 (serde_json default float parser: 2 ulp outside decimal exponents +-22).",
    technique="Lean 4 theorems about executable models (schema-directed codec regenerated from source; writer+matcher+reader; CSV "
              "mapping + validation rules) + differential / trace correspondence with the real code",
)

CLAIMED = True
