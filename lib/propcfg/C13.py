"""C13 — check configuration (see lib/props.py for the fields) and manifest texts."""
import os, sys
sys.path.insert(0, os.path.dirname(os.path.dirname(os.path.abspath(__file__))))
from common_texts import COMMON_NOTE

CLAIMED = True


def c13_nontrivial(case, v):
    k = case.get("k")
    info = v.get("info", {})
    if k in ("sol", "lil", "tsp"):
        return bool(case.get("in_hyp", True)) and info.get("customers", 0) >= 3 and \
            info.get("cap_accept", 0) > 0 and info.get("cap_reject", 0) > 0
    if k == "bind":
        return info.get("stops", 0) >= 2
    return k in ("init", "initread") and info.get("routes", 0) >= 2


PROP = dict(
    proof_modules=["VrpProofs.C13", "VrpProofs.C13.Basic", "VrpProofs.C13.Solomon", "VrpProofs.C13.Capacity",
                   "VrpProofs.C13.Tsplib", "VrpProofs.C13.Lilim", "VrpProofs.C13.Capacity2", "VrpProofs.C13.Init",
                   "VrpProofs.C13.Binds"],
    model_modules=["VrpModel.C13"], drv="drv_c13", bin="c13",
    nontrivial=c13_nontrivial,
    rule="sol/lil/tsp: well-formed generated file with >= 3 customers for which the generated tours contain at least one that "
         "the file's capacity accepts and one that it rejects; bind: a non-empty feasible tour plus a customer whose window, the "
         "depot's closing time or the capacity sits at the boundary (-1/0/+1) of what appending it needs; init/initread: solution "
         "text with >= 2 non-empty routes; distinct = SHA-256 of the canonical case input",
    modelled="read_solomon / read_lilim / read_tsplib at token level (header skipping, first-N-token tuples, Li&Lim relation "
             "pairing through the id map with last-row-wins, sign convention of the pair, TSPLIB key-value header / sections / id-1 "
             "naming / DIMENSION vehicles, every error kind), CoordIndex::collect, create_transport (rounded: nearest integer; "
             "unrounded: floor + integrality), create_fleet_with_distance_costs, write_text_solution, read_init_solution",
    traced="every case runs the String, BufReader and vrp-cli get_formats entry points of the real readers / writers on rendered "
           "text and requires identical results; stream bind runs the real goal.evaluate (route + activity level) and "
           "eval_job_insertion_in_route on the parsed problem",
    out_of_model="character-level tokenisation (split_whitespace, parse::<i32>, parse::<f64>+round, split(':'), trim) is covered by the "
                 "correspondence only; f64 sqrt: the theorems speak about floor / integrality / nearest integer, the correspondence "
                 "additionally compares every matrix entry bit-exactly with an integer-arithmetic model of the correctly rounded "
                 "double (sqrtBits, executed but not reasoned about); objective composition, job neighbourhood index and clusters, "
                 "the random choice among identical vehicles are not modelled",
    assumptions=["all numbers are i32 (the readers unwrap parse::<i32>), ids and service times non-negative, at least one vehicle; "
                 "capacity theorems for Solomon/TSPLIB: demands non-negative",
                 "files whose numeric positions hold non-numeric tokens, a fleet size of 0 or a Li&Lim pickup naming a missing "
                 "row make the real readers panic (unwrap / assert): marked `unmodelled`, never generated",
                 "TSPLIB: the real reader iterates a HashMap, so job order and location indices are compared sorted by id / as "
                 "coordinates; Solomon and Li&Lim location indices are compared exactly"],
)

META = dict(
    text="Proof (Lean 4), for ALL well-formed files of any size in the three grammars (Solomon, Li&Lim, TSPLIB CVRP/EUC_2D; "
         "well-formedness is an explicit decidable predicate, real example files satisfy it): the token-level reader model applied to the "
         "printed file yields a problem whose observable content (vehicles, capacity, depot, shift times, per job id / coordinates through "
         "the coord index / demand 4-tuple / window / service time, routing matrix) decodes to exactly the instance the file denotes "
         "(solomon_parse_print, lilim_parse_print + every row in exactly one request, tsplib_parse_print); roundSqrt is the unique nearest "
         "integer to the Euclidean distance, ties impossible (euclid_rounded_correct, parsed_distances); the capacity constraint on the "
         "parsed 4-tuples accepts exactly the tours the file's demands and capacity allow (capacity_binds_as_file_* — falsified by a dropped "
         "or sign-flipped demand) and appending a customer is feasible exactly when the file's windows, service times, distances and "
         "capacity allow it (windows_and_capacity_bind_as_file); a complete solution written as text and read back as initial solution "
         "gives the same routes and nothing unassigned (init_text_roundtrip). Tie: generated files (duplicate coordinates, zero demands, "
         "shuffled / sparse ids, whitespace, CRLF, 28.00000-style numbers, varying headers) rendered to text and read by the real "
         "read_solomon/read_lilim/read_tsplib through String, BufReader and vrp-cli get_formats; index-free dump (matrix bit-exact) compared with the model, "
         "the specification evaluated on the implementation's own dump; malformed files compared on the error kind; real text writer + "
         "real initial-solution reader on complete, partial and decorated solution texts; the real constraint evaluation "
         "(goal.evaluate, eval_job_insertion_in_route) on boundary cases of capacity, customer window and depot closing time.",
    note=COMMON_NOTE + " Out of model: character-level tokenisation and unrounded f64 sqrt (correspondence only).",
    technique="Lean 4 theorems over a token-level model of the readers, the routing matrix and the text writer/reader + differential "
              "correspondence on rendered text files through every public entry point, incl. the real constraint evaluation",
)
