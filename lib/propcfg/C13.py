"""C13 — check configuration (see lib/props.py for the fields) and manifest texts."""
import os, sys
sys.path.insert(0, os.path.dirname(os.path.dirname(os.path.abspath(__file__))))
from common_texts import COMMON_NOTE

CLAIMED = True


def c13_nontrivial(case, v):
    k = case.get("k")
    info = v.get("info", {})
    if k in ("sol", "lil", "tsp"):
        return bool(case.get("in_hyp", True)) and info.get("customers", 0) >= 3 and \
            info.get("cap_accept", 0) > 0 and info.get("cap_reject", 0) > 0
    return k in ("init", "initread") and info.get("routes", 0) >= 2


PROP = dict(
    proof_modules=["VrpProofs.C13", "VrpProofs.C13.Basic", "VrpProofs.C13.Solomon", "VrpProofs.C13.Capacity",
                   "VrpProofs.C13.Tsplib", "VrpProofs.C13.Lilim", "VrpProofs.C13.Capacity2", "VrpProofs.C13.Init"], model_modules=["VrpModel.C13"], drv="drv_c13", bin="c13",
    nontrivial=c13_nontrivial,
    rule="sol/lil/tsp: well-formed generated file with >= 3 customers for which the generated tours contain at least one that "
         "the file's capacity accepts and one that it rejects; init/initread: solution text with >= 2 non-empty routes; "
         "distinct = SHA-256 of the canonical case input",
    modelled="read_solomon / read_lilim / read_tsplib at token level (header skipping, first-N-token tuples, Li&Lim relation "
             "pairing through the id map, TSPLIB sections / id-1 naming / DIMENSION vehicles, error kinds), CoordIndex::collect, "
             "create_transport (rounded: nearest integer; unrounded: floor + integrality), create_fleet_with_distance_costs, "
             "write_text_solution, read_init_solution",
    traced="every case runs the String, BufReader and vrp-cli get_formats entry points of the real readers/writers on rendered text",
    out_of_model="character-level tokenisation (split_whitespace, parse::<i32>/f64+round, split(':'), trim), f64 sqrt in unrounded mode "
                 "(observed as floor + is-integral), goal/objective composition, job index/clusters, random choice among identical vehicles",
    assumptions=["all numbers are i32 (the readers unwrap parse::<i32>), ids/service times non-negative, at least one vehicle",
                 "files whose numeric positions hold non-numeric tokens make the real readers panic (unwrap): never generated"],
)

META = dict(
    text="Proof (Lean 4) about token-level models of the three readers + correspondence on generated files.",
    note=COMMON_NOTE,
    technique="Lean 4 theorems over a token-level model of the readers + differential correspondence on rendered text files",
)
