"""C14 — check configuration (see lib/props.py for the fields) and manifest texts."""
import os, sys
sys.path.insert(0, os.path.dirname(os.path.dirname(os.path.abspath(__file__))))
from common_texts import COMMON_NOTE


def c14_nontrivial(case, v):
    names = {op[0] for op in case.get("ops", [])}
    ins = names & {"ins_at", "ins_last", "get_route", "use"}
    rem = names & {"rem", "rem_at", "free_route", "free"}
    cp = names & {"copy", "slice"}
    return bool(ins) and bool(rem) and bool(cp)


PROP = dict(
    proof_modules=["VrpProofs.C14.Lists", "VrpProofs.C14.Assoc", "VrpProofs.C14.Tour", "VrpProofs.C14.Observe", "VrpProofs.C14.Registry", "VrpProofs.C14.RegistryNew", "VrpProofs.C14.RegistryRef", "VrpProofs.C14.Machine", "VrpProofs.C14"], model_modules=["VrpModel.C14"], drv="drv_c14", bin="c14",
    nontrivial=c14_nontrivial,
    rule="the operation sequence contains an insertion/acquisition (ins_at, ins_last, use, get_route), a removal/release "
         "(rem, rem_at, free, free_route) and a copy (deep_copy or deep_slice); distinct = SHA-256 of the canonical case input",
    modelled="Tour::{new, insert_at, insert_last, remove, remove_activity_at, legs, jobs, index, index_last, contains, has_job, "
             "has_jobs, start, end, end_idx, get, job_activities, job_activity_count, total, job_count, deep_copy}, "
             "Activity::{has_same_job, retrieve_job}, Route::deep_copy, RouteContext::{new, deep_copy, route_mut, state_mut, "
             "is_stale}, accept_route_state (stale flag, state reset), Registry::{new, use_actor, free_actor, all, available, "
             "next, deep_copy, deep_slice}, RegistryContext::{new, get_route, use_route, free_route, next_route, resources, "
             "deep_copy, deep_slice}",
    traced="Fleet::new / ProblemBuilder (groups by the similarity key), Multi::roots binding of sub-jobs",
    out_of_model="Tour::set_start/set_end called directly, activities_mut (crate-private), Activity schedule/place/commute "
                 "payload, which actor of a group Registry::next picks (checked only to be an admissible choice)",
    assumptions=["jobs and actors are identified by position in Problem.jobs / Fleet.actors (the code compares Arc addresses)",
                 "insert_at is called with 1 <= index <= job_activity_count + 1 (explicit hypothesis; other indices are "
                 "executed as an out-of-hypothesis stream and only compared with the mirror model)"],
)

META = dict(
    text="Proof (Lean 4) + correspondence; see evidence.",
    note=COMMON_NOTE,
    technique="Lean 4 refinement proof (code-shaped model vs. reference model) + differential op-sequence correspondence with handles",
)
