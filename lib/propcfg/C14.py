"""C14 — check configuration (see lib/props.py for the fields) and manifest texts."""
import os, sys
sys.path.insert(0, os.path.dirname(os.path.dirname(os.path.abspath(__file__))))
from common_texts import COMMON_NOTE


def c14_nontrivial(case, v):
    names = {op[0] for op in case.get("ops", [])}
    ins = names & {"ins_at", "ins_last", "get_route", "use"}
    rem = names & {"rem", "rem_at", "free_route", "free"}
    cp = names & {"copy", "slice"}
    return bool(ins) and bool(rem) and bool(cp)


def c14_extra(cases, verdicts):
    """exploration outside the hypotheses: what the real insert_at does with an index that is not between the depot ends"""
    n = ill = pan = 0
    for c in cases:
        v = verdicts.get(c["id"]) or {}
        ex = v.get("explore") or {}
        at = ex.get("reference_stopped_at")
        if at is None:
            continue
        n += 1
        if ex.get("well_formed_after_stop") is False:
            ill += 1
        impl = c.get("impl")
        if isinstance(impl, list) and at < len(impl) and impl[at].get("r") == "panic":
            pan += 1
    return {"exploration_out_of_contract": {
        "cases_leaving_the_insert_at_contract": n, "of_which_insert_at_panicked": pan,
        "of_which_left_an_ill_formed_tour": ill,
        "note": "index 0 / behind the end is accepted silently and displaces a depot end; an index beyond the vector panics "
                "after the job set was updated; all of it is reproduced bit for bit by the mirror model (model == impl)"}}


PROP = dict(
    proof_modules=["VrpProofs.C14.Lists", "VrpProofs.C14.Assoc", "VrpProofs.C14.Tour", "VrpProofs.C14.Observe",
                   "VrpProofs.C14.Registry", "VrpProofs.C14.RegistryNew", "VrpProofs.C14.RegistryRef",
                   "VrpProofs.C14.Machine", "VrpProofs.C14"],
    model_modules=["VrpModel.C14"], drv="drv_c14", bin="c14",
    nontrivial=c14_nontrivial, extra_evidence=c14_extra,
    rule="the operation sequence contains an insertion/acquisition (ins_at, ins_last, use, get_route), a removal/release "
         "(rem, rem_at, free, free_route) and a copy (deep_copy or deep_slice); distinct = SHA-256 of the canonical case input. "
         "Cases: random sequences (5-60 operations; thorough also 100-300) over 1-8 handles of the five container types in "
         "worlds of 4-7 jobs (1-2 multi jobs with 2-3 sub-jobs) and 3-4 actors (open and closed shifts, 1-4 groups, now and then "
         "an actor of another fleet); boundary indices (1, count+1), duplicates, absent jobs, depot/out-of-range positions for "
         "remove_activity_at; plus EVERY word up to length 3 (thorough: 4, and 5 for the closed route context) over a 10-letter "
         "tour alphabet and a 9-letter registry alphabet; a separate out-of-hypothesis stream calls insert_at with indices 0, "
         "count+2, count+3 One removal in three of a multi job is keyed by ONE task wrapped as a job (rem_sub): nothing may change.",
    modelled="Tour::{new, insert_at, insert_last, remove, remove_activity_at, legs, jobs, index, index_last, contains, has_job, "
             "has_jobs, start, end, end_idx, get, Index, activities_slice, all_activities, job_activities, job_activity_count, "
             "total, job_count, deep_copy}, Activity::{has_same_job, retrieve_job, new_with_job}, Route::deep_copy, "
             "RouteContext::{new, deep_copy, route, route_mut, state, state_mut, is_stale}, GoalContext::accept_route_state "
             "(stale flag, state reset, a FeatureState writing a tour state), Registry::{new, use_actor, free_actor, all, "
             "available, next, deep_copy, deep_slice}, RegistryContext::{new, get_route, use_route, free_route, next_route, "
             "resources, deep_copy, deep_slice}, Fleet::new grouping by the similarity key",
    traced="ProblemBuilder/Fleet::new (actors per vehicle shift, groups), MultiBuilder binding of sub-jobs to their multi job",
    out_of_model="Tour::set_start/set_end called directly and the crate-private activities_mut; schedule/place/commute payload of "
                 "activities; which actor of a group Registry::next picks (random + hash order: only checked to be an admissible "
                 "choice, by the mirror relation and by the reference relation)",
    assumptions=["jobs and actors are identified by position in Problem.jobs / Fleet.actors (the code compares Arc addresses)",
                 "insert_at is called with 1 <= index <= job_activity_count + 1 (explicit guard of the theorems; the code has "
                 "no such check: index 0 or an index behind the end displaces a depot end, an index beyond the vector panics "
                 "after the job set was updated - proved on witnesses, executed as the out-of-hypothesis stream)",
                 "documented panics (remove_activity_at on a depot marker or out of range, inserting an activity without job) "
                 "are part of the contract: result `panic`, nothing changes"],
)

META = dict(
    text="Proof (Lean 4), for operation sequences of ANY length over any number of handles. Code-shaped model: activity vector + "
         "separately maintained job hash set + closed flag (Tour), group map + index map + vector (Registry), registry + prototype "
         "index (RegistryContext), stale flag/state (RouteContext), deep copies as handles of a store. Reference model: a tour IS "
         "the list of its job activities, a registry IS the registered actors and the set in use. Theorems: every guarded "
         "insert_at/insert_last/remove/remove_activity_at sequence keeps Tour.WF (start first, end last iff closed, only job "
         "activities in between, job set = jobs of the activities without duplicates, job_activity_count/total/job_count "
         "consistent, legs = consecutive pairs + the open-end leg) and returns exactly the reference's results; every public "
         "observer (legs via windows(1|2), counters, index/index_last, contains, job_activities, start/end) equals the reference "
         "observer; Registry::new builds the fleet's groups and the container invariant holds in every reachable state; a vehicle "
         "is offered exactly when registered and not in use; use_actor succeeds exactly for an offered vehicle; after use_actor(a) no "
         "sequence without free_actor(a) lets use_actor(a) / get_route(a) succeed again; deep_slice keeps exactly the filtered "
         "actors (a filtered-out actor cannot be freed back in); get_route hands out the accepted empty prototype of that actor; "
         "the whole handle machine refines the reference machine (same results, same observations through every handle) and an "
         "operation changes only the handles it names (copies are equal when made, independent afterwards). Witness theorems: "
         "outside the index guard insert_at breaks WF. Tie: differential run of the real Tour/Route/RouteContext/Registry/"
         "RegistryContext against the model after EVERY operation for ALL live handles, plus the reference simulation and the "
         "declarative well-formedness predicate evaluated on the implementation's own observations.",
    note=COMMON_NOTE + " Out of model: set_start/set_end called directly, activity payload, the random choice inside Registry::next "
                       "(checked for admissibility only).",
    technique="Lean 4 refinement proof (code-shaped containers vs. reference model, induction over operation sequences) + "
              "differential op-sequence correspondence with handles on the real containers",
)

CLAIMED = True
