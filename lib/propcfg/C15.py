"""C15 — parallel evaluation results do not depend on how work is split."""
import os, sys
sys.path.insert(0, os.path.dirname(os.path.dirname(os.path.abspath(__file__))))
from common_texts import COMMON_NOTE

CLAIMED = True


def nontrivial(case, v):
    info = v.get("info", {})
    return info.get("distinct_costs", 0) >= 2


def extra(cases, verdicts):
    return {"pool_sizes": [1, 2, 3, 4, 8, 16], "repeats_per_pool": 3,
            "evaluate_all_calls": 18 * len(cases),
            "work_items": sum(len((c.get("impl") or {}).get("pairs", [])) for c in cases),
            "routes_hist": {str(k): sum(1 for c in cases if len(c["routes"]) == k) for k in range(1, 6)}}


PROP = dict(
    proof_modules=["VrpProofs.C15"], model_modules=["VrpModel.Route", "VrpModel.C06", "VrpModel.C15"],
    drv="drv_c15", bin="c15", nontrivial=nontrivial, extra_evidence=extra,
    rule="1-5 vehicles with feasible tours of 0-6 activities over one metric matrix, 1-6 unassigned single-task candidate jobs, in a third of the cases plus 2-5 multi-task (pickup-then-delivery) candidates interleaved; the real "
         "PositionInsertionEvaluator::evaluate_all (Exhaustive, BestResultSelector) inside rayon pools of 1,2,3,4,8,16 threads, 3 repeats each, "
         "and a sequential scan of unpruned eval_job_insertion_in_route calls for every (route, job). Non-trivial: at least two successes "
         "with different costs. Corpus: two non-metric cases (known finding S9, out of hypothesis). Distinct = SHA-256 of the canonical input Every fourth work list is evaluated under the heuristic goal (known_edge objective) on a solution carrying a footprint (pair costs traced). Stream swapstar (40 instances): ExchangeSwapStar::explore under seven pool layouts, twice each, must give one outcome.",
    modelled="rosomaxa::utils::parallel::fold_reduce (rayon fold+reduce contract as all split trees), cartesian_product work list, "
             "InsertionResult::choose_best_result, the alternative pruning of eval_job_insertion_in_route, and (from C06) the cost of every "
             "(route, job) pair",
    traced="eval_multi (multi-task candidates): their unpruned pair cost is taken from the implementation's own sequential scan, only the "
           "split-independence oracle applies to them; solver runs under Parallelism::new(p, t) layouts are validated by the C01-C03 campaign oracles, not here",
    out_of_model="actual thread interleavings and work stealing (the theorem covers every partition and bracketing rayon's contract allows; "
                 "data races are excluded by Rust's type system)",
    assumptions=["cost comparison is a linear order (C09: lexicographic order of cost vectors)",
                 "PruneSound (route-level cost is a lower bound of the full cost) holds for non-negative activity-level estimates: metric "
                 "distances with the distance objective; non-metric data is the known finding S9"],
)

META = dict(
    text="Proof (Lean 4): for EVERY split tree (every chunking of the work list, every bracketing of the reduce, extra identities — i.e. every "
         "thread count, pool layout and steal order rayon's fold/reduce contract allows) the cost chosen by the parallel evaluation equals the "
         "minimum of a sequential scan (foldReduce_split_invariant; with the alternative pruning under PruneSound: evaluate_all_split_invariant, "
         "stepPruned_eq_best); without PruneSound the result provably depends on the split (prune_unsound_witness = reproduced deviation S9, "
         "listed as known finding with two corpus cases). Tie: the real evaluate_all under pools of 1..16 threads and repeats returns exactly "
         "the cost the model predicts from the bare tours (per-pair costs by the C06 evaluator model, minimum over the work list), and equals "
         "the sequential minimum of the real unpruned evaluations.",
    note=COMMON_NOTE + " The full-solver part of C15 (valid solutions under every parallelism configuration) is covered by the C01-C03 "
         "campaign, which runs under several Parallelism layouts.",
    technique="Lean 4 induction over split trees (associativity of best under a linear order) + differential runs under rayon pools of 1..16 threads",
)
