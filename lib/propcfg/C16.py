"""C16 — check configuration (see lib/props.py for the fields) and manifest texts."""
import os, sys
sys.path.insert(0, os.path.dirname(os.path.dirname(os.path.abspath(__file__))))
from common_texts import COMMON_NOTE

CLAIMED = True


def _strip(case, x):
    """the unrounded Euclidean matrix is compared through the oracle only (the model has no square root)"""
    if case.get("k") == "euclid" and isinstance(x, dict) and "bits" in x:
        x = dict(x)
        x.pop("bits")
    return x


def c16_compare(case, verdict):
    impl = case.get("impl")
    model = verdict.get("model")
    oracle = verdict.get("oracle", {})
    bad = sorted(k for k, v in oracle.items() if v is False)
    if isinstance(impl, dict) and impl.get("inexact"):
        return {"skipped": True}
    dev = case.get("dev")
    if isinstance(impl, dict) and "panic" in impl:
        if dev and case.get("in_hyp") is False:
            # a case outside the hypotheses (S28u only, since the repairs): recorded by extra_evidence
            return {"skipped": True}
        return {"agree": False, "holds": False, "detail": "implementation panicked: " + str(impl["panic"])[:300]}
    agree = _strip(case, impl) == _strip(case, model)
    detail = ""
    if not agree:
        detail = "model and implementation differ"
    if bad:
        detail = "oracle failed: " + ",".join(bad)
    return {"agree": agree, "holds": not bad, "detail": detail}


def c16_nontrivial(case, v):
    k = case.get("k")
    impl = case.get("impl")
    if not isinstance(impl, dict):
        return False
    if k in ("core", "prag"):
        if "err" in impl:
            return True  # a rejected set: one of the inconsistency classes
        ms = case.get("ms", [])
        asym = any(len(set(m.get("dur", m.get("tt", [])))) > 1 for m in ms)
        multi = len(ms) >= 2
        return asym and multi and len(case.get("qs", [])) >= 2
    if k == "simple":
        return len(case.get("dur", [])) > 1
    if k in ("euclid", "approx"):
        return len(case.get("pts", [])) >= 2
    return False


def c16_extra(cases, verdicts):
    """how the tagged classes (dev = outside the hypotheses: S28u; cls = repaired former deviations) behaved in this run"""
    out = {}
    for c in cases:
        dev = c.get("dev") or c.get("cls")
        if not dev:
            continue
        impl = c.get("impl")
        o = "panicked" if "panic" in impl else "rejected" if "err" in impl else "accepted"
        out.setdefault(dev, {}).setdefault(o, 0)
        out[dev][o] += 1
    return {"deviation_classes_observed": out}


PROP = dict(
    proof_modules=["VrpProofs.C16", "VrpProofs.C16.Basic", "VrpProofs.C16.Search", "VrpProofs.C16.Aware", "VrpProofs.C16.Spec",
                   "VrpProofs.C16.Builder", "VrpProofs.C16.Provider", "VrpProofs.C16.Reader", "VrpProofs.C16.Accepts"], model_modules=["VrpModel.C16"], drv="drv_c16", bin="c16",
    compare=c16_compare, nontrivial=c16_nontrivial, extra_evidence=c16_extra,
    rule="core/prag: a rejected set (one inconsistency class per case) or an accepted set with at least two matrices, "
         "non-constant entries and at least two queries (asymmetric, multi-profile and/or multi-timestamp); simple: more "
         "than one entry; euclid/approx: at least two points; distinct = SHA-256 of the canonical case input A third of the pragmatic cases give the last vehicle a required break in the far future, so that the reader wraps the provider into the reserved-time provider.",
    modelled="create_matrix_transport_cost[_with_fallback] (every check, in order), TimeAgnosticMatrixTransportCost and "
             "TimeAwareMatrixTransportCost (grouping, stable sort on the u64-truncated timestamp, bracket search, "
             "interpolation formula, fallback, scale, *_approx at t = 0), SimpleTransportCost, fleet_reader::"
             "create_transport_costs (name -> index with the positional fallback, error codes -> -1, every error), "
             "read_fleet's Profile, validation E1500/E1501/E1503/E1504/E1505, the index CoordIndex gives to a location of "
             "custom type unknown + UnknownLocationFallback (zero), scientific CoordIndex::collect + create_transport(rounded)",
    traced="coordinate approximation (create_approx_matrices: haversine) and the unrounded Euclidean matrix: symmetry, "
           "zero diagonal, non-negativity, duration = distance/speed up to rounding, closeness to the exact square root "
           "are evaluated on the real output; the provider read_pragmatic builds from the approximation is compared "
           "with the reader model applied to the approximated matrices",
    out_of_model="f64 rounding (inputs are generated so that every f64 operation of the providers is exact; haversine "
                 "is evaluated by the real code only; a replica run over 2*10^6 pairs showed 5.7% last-bit asymmetries before "
                 "rounding and none after), DynamicTransportCost (reserved times), job-index construction inside read_pragmatic "
                 "(where the D1 witnesses panic)",
    assumptions=[
        "matrix entries and matrix timestamps are integers below 2^21, query times and scales are dyadic rationals, "
        "interpolation ratios are short dyadic numbers: every f64 operation of the code is then exact (asserted: "
        "each printed value has fewer than 45 significant bits; otherwise the case is counted as skipped_inexact)",
        "slice::binary_search is modelled by its contract on strictly increasing keys",
        "outside the hypotheses (dev-tagged, in_hyp=false stream, run on the real code and summarised under "
        "deviation_classes_observed): S28u — a matrix set in which no name is a fleet profile is mapped by list position "
        "(documented positional behaviour pinned by the repository's fleet_reader_test). The former deviations S28 (name "
        "mixes), D1 (non-square lengths, error codes length), D2 (equal timestamp keys) and D3 (unknown location index) are "
        "repaired in /repo (83519b0, 0684041, c805ac8, a68e4cc); their streams and corpus witnesses are ordinary "
        "in-hypothesis cases now (cls-tagged) and the mutants C16-n..q restore the old behaviour",
    ],
)

META = dict(
    text="Proof (Lean 4) over exact rationals, for all matrix sets, sizes, profiles, timestamps and query times: an accepted "
         "time-agnostic set answers (profile, from, to) with the entry of the matrix carrying that profile index, duration times "
         "the vehicle's scale, distance unscaled, identically for every vehicle of the profile; an accepted time-aware set "
         "answers with the matrix whose (truncated) timestamp equals the query's, with the first / last matrix outside the span, "
         "and in between with the left matrix' distance and the straight line through the two bracketing durations (inside "
         "their hull); sorting + bracket search equals an order-free selection over the unsorted input; every well-formed set "
         "is accepted and served (well_formed_is_served) and the builder rejects whatever the specification calls inconsistent (builder_rejects_inconsistent, unconditional); the pragmatic reader routes a vehicle of profile p on the matrices named p when "
         "every matrix name is a fleet profile (name mixes are rejected; a set with no fleet-profile name is positional — documented behaviour); error codes > 0 give -1 entries; "
         "Euclidean and abstract haversine formulas are symmetric with zero diagonal. Tie: differential run of the real "
         "providers (public constructors and read_pragmatic) against the model and the specification evaluated on the "
         "implementation's own answers.",
    note=COMMON_NOTE + " Out of model: f64 rounding (exactness of every generated case is asserted), haversine evaluation "
         "(real code only), DynamicTransportCost, unknown-location fallback.",
    technique="Lean 4 theorems over Rat/Int models of the providers + differential correspondence on exact dyadic inputs",
)
