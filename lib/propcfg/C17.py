"""C17 — check configuration (see lib/props.py for the fields) and manifest texts."""
import os, sys
sys.path.insert(0, os.path.dirname(os.path.dirname(os.path.abspath(__file__))))
from common_texts import COMMON_NOTE

CLAIMED = True


def c17_compare(case, verdict):
    """model == impl where the model is executable on the case (try_path, DBSCAN, k-medoids assignment without
    ties); the search of LKH / the medoid choice of k-medoids are checked by the Lean contract checker only
    (model = null). Every oracle entry is the specification evaluated on the implementation's output."""
    impl = case.get("impl")
    model = verdict.get("model")
    if isinstance(impl, dict) and "panic" in impl:
        return {"agree": False, "holds": False, "detail": "implementation panicked: " + str(impl["panic"])[:300]}
    if isinstance(impl, dict) and impl.get("not_run"):
        # LKH cases after three timeouts in the same run are not started (reported by the timed-out cases)
        return {"skipped": True}
    if isinstance(impl, dict) and impl.get("timeout"):
        return {"agree": None, "holds": False, "detail": "lkh_optimize did not return within the time limit"}
    oracle = verdict.get("oracle", {})
    bad = sorted(k for k, v in oracle.items() if v is False)
    agree = None if model is None else (impl == model)
    detail = ""
    if agree is False:
        detail = "model and implementation differ"
    if bad:
        detail = "oracle failed: " + ",".join(bad)
    return {"agree": agree, "holds": (not bad), "detail": detail}


def c17_nontrivial(case, v):
    k = case.get("k")
    impl = case.get("impl")
    info = v.get("info", {})
    if k == "trypath":
        # a rebuilt tour that differs from the input path, under the theorems' hypotheses
        return bool(info.get("hyp")) and impl.get("r") is not None and impl.get("r") != case["path"]
    if k == "lkh_grid":
        return True
    if k in ("lkh", "lkh_pts"):
        return len(case["path"]) >= 4 and impl.get("paths") and impl["paths"][-1] != case["path"]
    if k == "dbscan":
        # at least one cluster and either a second cluster or a point left as noise
        pts = set(case["points"])
        clustered = {p for c in impl for p in c}
        return len(impl) >= 1 and (len(impl) >= 2 or len(pts - clustered) > 0)
    if k == "kmed":
        return len(impl) >= 2 and any(len(c[1]) >= 2 for c in impl)
    if k == "hier":
        return len(impl) >= 2
    return False


PROP = dict(
    proof_modules=["VrpProofs.C17.Basic", "VrpProofs.C17.Lkh", "VrpProofs.C17.LkhCycle", "VrpProofs.C17.LkhVisited", "VrpProofs.C17.Dbscan", "VrpProofs.C17.KMed", "VrpProofs.C17"], model_modules=["VrpModel.C17"], drv="drv_c17", bin="c17",
    compare=c17_compare,
    nontrivial=c17_nontrivial,
    timeout={"quick": 1800, "thorough": 14400},
    rule="trypath: a tour is rebuilt (Some) that differs from the input, with duplicate-free path and joined edges over path "
         "nodes; lkh: path of >= 4 nodes that the search changed; dbscan: at least one cluster and (a second cluster or a "
         "noise point); kmed: >= 2 clusters one of which has >= 2 points; hier: >= 2 tiers; distinct = SHA-256 of the "
         "canonical case input Stream lkh_grid: 8 cases of 25 000 instances each on a 4x4 / 5x5 grid with repeated addresses, searched inside the harness under an evaluation budget (2*10^6 cost evaluations).",
    modelled="lkh::make_edge/make_edge_set (BTreeSet order), Tour::new, Tour::try_path (edge surgery, successor walk with "
             "HashMap overwrite, visited/length validation), KOpt::optimize loop; dbscan::create_clusters line by line; "
             "kmedoids::assign_points_to_medoids, update_medoids, the loop of KMedoids::calculate with both return paths, "
             "create_hierarchical_kmedoids (scan/take_while over tiers, HashMap insert/extend, propagation of unsplit "
             "clusters; the create_kmedoids(..,2,..) calls are a parameter, looked up in the implementation's own next tier "
             "for the exact comparison)",
    traced="KOpt::improve/find_closest/choose_x/choose_y (HashMap-ordered neighbour search: abstracted by its contract in the "
           "theorems, its results are checked by the Lean contract checker on every lkh_optimize output); "
           "KMedoids::initialize_medoids (parallel fold, order dependent) and the HashMap iteration order of "
           "update_medoids (a parameter of the model): the returned maps are checked by the Lean contract checker given "
           "the implementation's own medoids, and compared exactly with the model's assignment when no point has two "
           "nearest medoids",
    out_of_model="f64 rounding of cost sums (all generated costs/distances are integers below 2^31, sums exact); rayon "
                 "scheduling; wall-clock (termination is observed with a 20 s / 60 s limit per lkh_optimize call)",
    assumptions=["LKH: symmetric integer cost matrices, start paths without repeated nodes, neighbour lists over nodes "
                 "other than the node itself (as CostMatrix::new in lkh_search.rs builds them, plus truncated/shuffled lists)",
                 "k-medoids: the points are pairwise different (the callers pass 0..n) and there are at least k of them "
                 "(otherwise create_kmedoids returns an empty map, checked as such); 'medoid lies in its own cluster' and "
                 "'exactly k clusters' only for distance tables with d(x,x)=0<d(x,y)",
                 "DBSCAN: neighbourhood function is a pure table over the point universe"],
)

META = dict(
    text="Proof (Lean 4), all sizes: Tour::try_path — a rebuilt tour is a permutation of the path's nodes starting at the "
         "path's first node, every leg is an edge of (tour edges − broken + joined); for a degree-preserving move (no node "
         "with more than two incident edges, n edges) the accepted closed tour uses exactly that edge set and its cost is "
         "old − Σbroken + Σjoined; KOpt::optimize with improve abstracted by its move-level contract never raises the "
         "closed-tour cost, keeps node set and start node, and terminates (optimize_terminates: for EXACT costs, every accepted tour strictly "
         "cheaper; with f64 costs this contract is false - S50 - and the repaired loop, which remembers the accepted tours, terminates for ANY "
         "improve that returns permutations, whatever the gains: LkhVisited.optimizeV_terminates, at most n! rounds; noMemory_cycles: the "
         "loop without memory never returns on the S50 shape). DBSCAN create_clusters — clusters pairwise "
         "disjoint, every cluster seeded by a core point of the input, every member density-reachable from the seed, no "
         "core point unclustered (and all neighbours of clustered core points clustered), the fuel bound suffices (the "
         "worklist loop terminates). k-medoids — every return path of calculate is an assignment to the final medoids: a "
         "partition of the points in which no point is closer to another cluster's medoid than to its own, keys are data "
         "points, at most k clusters, no expect() panic; hierarchy: hash-map inserts never collide, every tier is a "
         "partition and decomposes into one valid split per cluster of the previous tier (nearest medoid among siblings), "
         "and passes the executable per-split check. Tie: exact differential run of try_path (hook H7), create_clusters, "
         "the k-medoids assignment and the hierarchy scan against the models; the specifications evaluated by Lean on the "
         "outputs of the real lkh_optimize (integer matrices and - after S50 - Euclidean instances with f64 square-root costs, duplicates and "
         "mirror-symmetric layouts; termination observed with a time limit), create_clusters, create_kmedoids, create_hierarchical_kmedoids.",
    note=COMMON_NOTE + " Traced, not modelled: the LKH neighbour search order and k-medoids' initial medoid choice "
         "(hash-map / parallel-fold order); their outputs are checked against the proved contract on every case.",
    technique="Lean 4 theorems over executable models (worklist/fuel invariants, counting partitions) + differential "
              "correspondence and Lean-evaluated contract checkers on the real algorithms' outputs",
)
