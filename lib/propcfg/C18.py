"""C18 — check configuration (see lib/props.py for the fields) and manifest texts."""
import os, sys, struct
sys.path.insert(0, os.path.dirname(os.path.dirname(os.path.abspath(__file__))))
from common_texts import COMMON_NOTE

CLAIMED = True

REL_TOL = 1e-9


def _fl(bits):
    return struct.unpack("<d", struct.pack("<Q", bits))[0]


def _walk(model, impl, path, diffs, skipped):
    """compares the keys/positions the model prints; floats are binary64 bit patterns:
    int leaf = must be bit-identical; {"approx": bits, "scale": bits} = |impl - model| <= 1e-9 * max(|model|, scale);
    {"skip": true} = not decidable by the exact model (counted, not compared)"""
    if isinstance(model, dict):
        if model.get("skip") is True:
            skipped.append(path)
            return
        if "approx" in model:
            if isinstance(impl, bool) or not isinstance(impl, int):
                diffs.append(f"{path}: expected a float pattern, got {impl!r}")
                return
            if impl == model["approx"]:
                return
            m, x, sc = _fl(model["approx"]), _fl(impl), abs(_fl(model.get("scale", 0)))
            if not (x == x) or x in (float("inf"), float("-inf")) or not abs(x - m) <= REL_TOL * max(abs(m), sc):
                diffs.append(f"{path}: model~{m!r} impl={x!r}")
            return
        if not isinstance(impl, dict):
            diffs.append(f"{path}: expected an object, got {str(impl)[:80]}")
            return
        for k, v in model.items():
            if k not in impl:
                diffs.append(f"{path}.{k}: missing in impl")
            else:
                _walk(v, impl[k], f"{path}.{k}", diffs, skipped)
        return
    if isinstance(model, list):
        if not isinstance(impl, list) or len(impl) != len(model):
            diffs.append(f"{path}: list shape differs")
            return
        for i, (a, b) in enumerate(zip(model, impl)):
            _walk(a, b, f"{path}[{i}]", diffs, skipped)
        return
    if model != impl or isinstance(model, bool) != isinstance(impl, bool):
        diffs.append(f"{path}: model={model!r} impl={impl!r}")


def c18_compare(case, verdict):
    impl = case.get("impl")
    if isinstance(impl, dict) and "panic" in impl:
        return {"agree": False, "holds": False, "detail": "implementation panicked: " + str(impl["panic"])[:300]}
    diffs, skipped = [], []
    _walk(verdict.get("model"), impl, "impl", diffs, skipped)
    oracle = verdict.get("oracle", {})
    bad = sorted(k for k, v in oracle.items() if v is False)
    detail = ""
    if diffs:
        detail = "model and implementation differ: " + "; ".join(diffs[:3])
    if bad:
        detail = "oracle failed: " + ",".join(bad)
    whole_skipped = skipped == ["impl"] or (case.get("k") in ("target", "mv_sample") and skipped and not diffs and not bad)
    return {"agree": not diffs, "holds": not bad, "detail": detail, "skipped": bool(whole_skipped)}


def c18_nontrivial(case, v):
    k = case.get("k")
    if k == "slot":
        return len(case["rewards"]) >= 10 and len(set(case["rewards"])) >= 2
    if k in ("argmax",):
        return len(case["vals"]) >= 2 and len(set(case["vals"])) < len(case["vals"])
    if k == "weighted":
        return len(set(case["weights"])) >= 2
    if k == "select":
        return len(case["slots"]) >= 2
    if k == "reward":
        return case["impl"].get("base", 0) != 0
    if k == "maxgen":
        return 0 < case["generation"] and case["limit"] > 0
    if k == "composite":
        return len(case["parts"]) >= 2
    if k == "target":
        return case["fitness"] is not None and case["fitness"] != case["target"]
    if k == "mv_sample":
        f = case["impl"]["fires"]
        return True in f and False in f
    if k == "mv_period":
        return True
    if k == "remedian":
        return len(case["values"]) > case["base"]
    if k == "noise":
        return True in case["hits"]
    if k == "sampling":
        return 0 < case["amount"] < case["size"]
    if k == "dynamic":
        return case["ops"] >= 2
    return False


def c18_extra(cases, verdicts):
    scen = skipped = 0
    approx = exact = 0
    for c in cases:
        v = verdicts.get(c["id"]) or {}
        if c.get("k") == "mv_period":
            scen += len(c.get("scenarios", []))
            skipped += v.get("skipped_scenarios", 0)
        if c.get("k") == "slot":
            for row in (v.get("model") or {}).get("params", []):
                for leaf in row[:4]:
                    if isinstance(leaf, dict):
                        approx += 1
                    else:
                        exact += 1
    return {"period_mode_scenarios": scen, "period_mode_scenarios_skipped_unstable_clock": skipped,
            "slot_parameters_compared_bit_exact": exact, "slot_parameters_compared_with_tolerance_1e-9": approx}


PROP = dict(
    proof_modules=["VrpProofs.C18", "VrpProofs.C18.Slot", "VrpProofs.C18.Select", "VrpProofs.C18.Reward", "VrpProofs.C18.Termination",
                   "VrpProofs.C18.Sample", "VrpProofs.C18.Period", "VrpProofs.C18.Remedian"], model_modules=["VrpModel.C18"], drv="drv_c18", bin="c18",
    compare=c18_compare, nontrivial=c18_nontrivial, extra_evidence=c18_extra,
    rule="slot: history with >= 10 updates and >= 2 distinct rewards; argmax: ties present; weighted: >= 2 distinct weights; "
         "reward: non-zero base reward; maxgen: 0 < generation, limit > 0; composite: >= 2 criteria; target: fitness differs from "
         "the target; mv_sample: the criterion both fired and stayed silent in the run; remedian: more observations than one "
         "buffer; sampling: 0 < amount < size; distinct = SHA-256 of the canonical case input",
    modelled="SlotMachine::{new,update,sample}; random_argmax and DefaultRandom::weighted with the random draws as an oracle argument; "
             "get_relative_distance, estimate_distance_reward, estimate_reward_perf_multiplier (hooks H4); MaxGeneration, "
             "CompositeTermination, TargetProximity/relative_distance, MinVariation sample mode (ring buffer) and period mode "
             "(window arithmetic), get_cv/get_variance_mean, Remedian, Noise::generate, SelectionSamplingIterator, "
             "create_range_sampling_iter — all over exact rationals",
    traced="DefaultDistributionSampler on the learnt parameters, SearchAgent-style selection (samples + random_argmax), the whole "
           "DynamicSelective heuristic with telemetry on scripted operators, MinVariation period mode against the wall clock "
           "(the clock value read inside the call is bracketed by two readings of the same timer; the random thinning above 1000 "
           "stored samples is exercised with a constant fitness only)",
    out_of_model="f64 rounding, overflow to +-inf and NaN propagation: the theorems are about exact rationals; where f64 is not "
                 "provably exact the tie uses the relative tolerance 1e-9 (against the input scale), and the oracle entries "
                 "(finite, positive, in range, picks a configured operator, no panic) are evaluated on the real f64 values",
    assumptions=["rewards are non-negative finite floats (0, denormals, up to 2^60); gamma samples handed back by the recording sampler are 0 or "
                 ">= 2^-60; fitness values are finite; the random thinning of MinVariation's period store is not modelled (oracle of the model = any function)",
                 "MinVariation period mode cannot be scripted (Timer is read inside the call): scenarios whose outcome depends on a clock "
                 "reading between the two bracketing readings are skipped and counted"],
)

META = dict(
    text="Proof (Lean 4, exact rationals): for EVERY reward history the slot machine state keeps shape = 1 + n/2 > 0, rate >= 10 and "
         "non-decreasing, rate = 10 + half the squared deviations from the mean (Welford), variance estimate > 0, and its mean equals the "
         "arithmetic mean of the rewards seen (hence lies in their hull); sample() always hands a positive shape/scale/variance to the "
         "sampler (zero-precision guard); random_argmax and weighted return an index of a maximal value / of a positive weight for every "
         "non-empty input whatever the random draws; the distance is positive iff the solution is better, the base reward is within "
         "[0, 3(N+1)] for non-negative fitness vectors of N objectives (documented [0,6] proved for N = 1 and refuted for N = 3 by the S26 "
         "witness), positive iff the parent is improved, the performance multiplier within [9/16, 3]; MaxGeneration and composite estimates "
         "are within [0,1] (1 exactly at termination); TargetProximity stops iff the distance is below the threshold; the sample-mode ring "
         "buffer of MinVariation is a rotation of the window of the last `sample` generations and, for every time-sorted history of up to "
         "1000 samples, the period-mode drained store answers like the declarative window over the WHOLE history (in-period samples, "
         "extended to the two most recent; S27), firing iff every objective's cv is not above the threshold; the Remedian accepts exactly "
         "min(n, base^exponent) observations, its buffers stand for exactly `count` of them and its median is one of the observations; "
         "selection sampling yields exactly min(amount, size) increasing items. Tie: the real code is run on the same inputs (bit-exact "
         "where f64 is provably exact, 1e-9 otherwise) and the property oracle is evaluated on the real f64 values including "
         "0/denormal/huge reward streams, the default gamma/normal sampler and the whole DynamicSelective heuristic.",
    note=COMMON_NOTE + " Partial by nature: f64 rounding/overflow/NaN cannot be exhibited by the exact model; the real-code oracle explores them.",
    technique="Lean 4 theorems over core Rat (Mathlib tactics only in the proof file) + differential correspondence of the model and the real rosomaxa code",
)
