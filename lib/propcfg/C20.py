"""C20 — insertion cost estimates equal true objective changes for additive objectives."""
import os, sys
sys.path.insert(0, os.path.dirname(os.path.dirname(os.path.abspath(__file__))))
from common_texts import COMMON_NOTE


from props import default_compare


def compare(case, verdict):
    r = default_compare(case, verdict)
    if verdict.get("model") is None and not (isinstance(case.get("impl"), dict) and "panic" in case["impl"]):
        # multi-task candidates: no executable model of eval_multi; the quote-vs-realised oracle only
        r["agree"] = True
    return r


def nontrivial(case, v):
    rows = [r for r in (case.get("impl") or {}).get("rows", []) if r]
    return len(case.get("tour", [])) >= 2 and any(r["cost"][2] != 0 for r in rows)


def extra(cases, verdicts):
    rows = sum(1 for c in cases for r in (c.get("impl") or {}).get("rows", []) if r)
    nowait = sum(verdicts.get(c["id"], {}).get("info", {}).get("nowait_cost_rows", 0) for c in cases)
    value = sum(verdicts.get(c["id"], {}).get("info", {}).get("value_rows", 0) for c in cases)
    multi = [c for c in cases if c.get("k") == "multi"]
    multi_ok = sum(1 for c in multi for r in (c.get("impl") or {}).get("rows", []) if r)
    return {"quotes_compared_with_realised_change": rows, "cost_objective_rows_without_waiting": nowait,
            "rows_with_value_layer": value, "multi_task_candidates": len(multi), "multi_task_candidates_placed_and_compared": multi_ok, "value_read_mode": {m: sum(1 for c in cases if (c.get("values") or {}).get("mode") == m) for m in ("job", "actor")},
            "objective_mix": {"cost": sum(1 for c in cases if c["obj"] == "cost"), "distance": sum(1 for c in cases if c["obj"] == "distance")}}


CLAIMED = True

PROP = dict(
    proof_modules=["VrpProofs.C20"], model_modules=["VrpModel.Route", "VrpModel.C06", "VrpModel.C20"],
    drv="drv_c20", bin="c20", compare=compare, nontrivial=nontrivial, extra_evidence=extra,
    rule="same tour/job generator as C06 (single-task jobs; every fifth candidate is a multi-task job - pickup then delivery - with a value: one row, "
         "the best placement found by the sequential search, oracle only); for every position the real evaluator accepts: quote from "
         "eval_job_insertion_in_route(Concrete(p)), insertion carried out by the real InsertionHeuristic at that position, fitness "
         "before/after from the real GoalContext::fitness. Non-trivial: tour has >= 2 activities and a quote with a non-zero transport "
         "component. Distinct = SHA-256 of the canonical case input One case in four has a goal of 8-9 layers (four constantly-zero objectives in front, stripped before the comparison).",
    modelled="FeatureObjective::estimate and ::fitness of minimize_unassigned, fleet_usage (minimize tours), transport "
             "(DistanceObjective/estimate_leg, CostObjective::estimate_route/estimate_activity, get_total_cost), total_value "
             "(MaximizeTotalValueObjective::estimate/fitness, per job and per (actor, job)); Goal::estimate layering",
    out_of_model="balance/compactness/fast-service objectives (not additive, not claimed), "
                 "time-dependent routing, f64 rounding (integer data)",
    assumptions=["the job is listed as unassigned before the insertion (as InsertionContext::new leaves it); one vehicle; "
                 "harness goal layers [min-unassigned, min-tours, distance | cost] and, in two cases of three, a fourth layer maximize-value"],
)

META = dict(
    text="Proof (Lean 4), tours of any length and every position: the quoted cost vector of the evaluator model equals, component by "
         "component, the change of the objective values recomputed from the bare tours for unassigned jobs, number of tours and total "
         "distance (distance_estimate_exact, distance_estimate_first, quote_exact_distance), and - for the combined cost objective on a tour that "
         "already has jobs, when nobody waits in the tour before and after the insertion - for the total cost fixed + distance x per-distance "
         "+ duration x per-time (noWait, after_noWait, futureWaiting_noWait, leg_estimate_exact for any additive metric, "
         "cost_estimate_noWait, quote_exact_cost_noWait), and for the first job of an unused tour (quote_exact_cost_first: fixed cost + the new tour's distance and duration cost); for the total value of served jobs the quote -value(job) is the change of the layer's "
         "value at every position (sum_insertAt, quote_exact_value). Tie: exact differential run — quote, chosen "
         "place/window and the fitness vectors before/after from the real code equal the model's; oracle on the real numbers: realised "
         "change == quote per additive layer, and for the combined cost objective whenever the tour has no waiting before and after.",
    note=COMMON_NOTE + " Every clause of the statement has a theorem about the model (unassigned, tours, distance, value at every position; combined "
         "cost without waiting for a tour with jobs - quote_exact_cost_noWait - and for the first job of an unused tour - quote_exact_cost_first). "
         "With waiting the cost quote is an estimate by design (the property excludes it). Limits of the model: one vehicle, single-task jobs (multi-task candidates are judged by the quote-vs-realised oracle on the real numbers: "
         "no model of eval_multi), "
         "time-independent routing, integer data (f64 rounding out of model).",
    technique="Lean 4 list lemmas (totalDist over append, omega) + exact differential correspondence of quotes and realised fitness changes",
)
