"""Per-property configuration of ./check (what to build, how to compare, what counts as non-trivial)."""

TRUSTED_BASE = [
    "Lean 4.33 kernel (thorough tier: re-checked by leanchecker)",
    "axioms: propext, Classical.choice, Quot.sound only (audited by #print axioms on every run); no native_decide, no own axioms, no sorry",
    "Lean compiler/runtime executing the model definitions inside the driver (lean_exe)",
    "Drv/*.lean JSON glue, the Rust harness (generators, canonicalisation, in-process calls), this Python driver (diff, classification)",
    "rustc/cargo building /repo's working tree with --cfg reinterpretcat_vrp_verif",
]


def default_compare(case, verdict):
    """correspondence: model output == implementation output; oracle: every entry true"""
    impl = case.get("impl")
    model = verdict.get("model")
    agree = (impl == model)
    oracle = verdict.get("oracle", {})
    bad = [k for k, v in oracle.items() if v is False]
    detail = ""
    if not agree:
        detail = "model and implementation differ"
    if bad:
        detail = "oracle failed: " + ",".join(sorted(bad))
    if isinstance(impl, dict) and "panic" in impl:
        return {"agree": False, "holds": False, "detail": "implementation panicked: " + str(impl["panic"])[:300]}
    return {"agree": agree, "holds": (not bad), "detail": detail}


PREDICATES = {}

PROPS = {}

# ---------------------------------------------------------------------------------------------- C09


def c09_nontrivial(case, v):
    k = case.get("k")
    if k in ("goal", "icmp"):
        m = case.get("impl")
        flat = [x for row in m for x in row]
        specials = {0, 1 << 63, 0x7ff0 << 48, 0xfff0 << 48, 0x7ff8 << 48}
        vals = []

        def walk(x):
            if isinstance(x, list):
                for y in x:
                    walk(y)
            else:
                vals.append(x)
        walk(case.get("vecs"))
        has_special = any((x in specials) or (x >> 52) & 0x7ff == 0x7ff for x in vals)
        lens = {len(x) for x in case.get("vecs")} if k == "icmp" else {0, 1}
        return any(x != 0 for x in flat) and (has_special or len(lens) > 1)
    if k == "iarith":
        return len(case["x"]) != len(case["y"]) and len(case["x"]) + len(case["y"]) > 0
    return k == "dom" and len(set(case["os"])) > 1


PROPS["C09"] = dict(
    proof_modules=["VrpProofs.C09"], model_modules=["VrpModel.C09"], drv="drv_c09", bin="c09",
    nontrivial=c09_nontrivial,
    rule="goal/icmp: comparison matrix not all-equal and (a special value ±0/±inf/NaN occurs or the vectors have "
         "different lengths); iarith: vectors of different lengths; dom: at least two different orderings; "
         "distinct = SHA-256 of the canonical case input",
    modelled="Goal::total_order, GoalBuilder::add_single comparator, dominance_order, multi-objective layer composition, "
             "impl Ord/PartialEq/Add/Sub for InsertionCost (bit-exact comparison; exact integer arithmetic)",
    out_of_model="f64 rounding of + and - (the inverse law is proved over Int and checked on integer-valued vectors)",
    assumptions=["fitness values are planted through a test objective (public FeatureObjective trait); "
                 "arithmetic cases use integers below 2^41 so that f64 + and - are exact"],
)
