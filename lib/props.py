"""Per-property configuration of ./check (what to build, how to compare, what counts as non-trivial)."""

TRUSTED_BASE = [
    "Lean 4.33 kernel (thorough tier: re-checked by leanchecker)",
    "axioms: propext, Classical.choice, Quot.sound only (audited by #print axioms on every run); no native_decide, no own axioms, no sorry",
    "Lean compiler/runtime executing the model definitions inside the driver (lean_exe)",
    "Drv/*.lean JSON glue, the Rust harness (generators, canonicalisation, in-process calls), this Python driver (diff, classification)",
    "rustc/cargo building /repo's working tree with --cfg reinterpretcat_vrp_verif",
]


def default_compare(case, verdict):
    """correspondence: model output == implementation output; oracle: every entry true"""
    impl = case.get("impl")
    model = verdict.get("model")
    agree = (impl == model)
    oracle = verdict.get("oracle", {})
    bad = [k for k, v in oracle.items() if v is False]
    detail = ""
    if not agree:
        detail = "model and implementation differ"
    if bad:
        detail = "oracle failed: " + ",".join(sorted(bad))
    if isinstance(impl, dict) and "panic" in impl:
        return {"agree": False, "holds": False, "detail": "implementation panicked: " + str(impl["panic"])[:300]}
    return {"agree": agree, "holds": (not bad), "detail": detail}


PREDICATES = {}

PROPS = {}
META = {}
NOT_CLAIMED = {}


def _load():
    import importlib.util, os, glob
    d = os.path.join(os.path.dirname(os.path.abspath(__file__)), "propcfg")
    # a check is registered only after the main session has run it green on the unchanged tree (lib/verified.txt)
    vf = os.path.join(os.path.dirname(os.path.abspath(__file__)), "verified.txt")
    verified = set(open(vf).read().split()) if os.path.exists(vf) else set()
    for f in sorted(glob.glob(os.path.join(d, "C*.py"))):
        pid = os.path.basename(f)[:-3]
        spec = importlib.util.spec_from_file_location("propcfg_" + pid, f)
        m = importlib.util.module_from_spec(spec)
        spec.loader.exec_module(m)
        PROPS[pid] = m.PROP
        if getattr(m, "CLAIMED", False) and pid in verified:
            META[pid] = m.META
        else:
            NOT_CLAIMED[pid] = getattr(m, "REASON", "not claimed")
        PREDICATES.update(getattr(m, "PREDICATES", {}))




_load()
