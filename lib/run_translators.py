#!/usr/bin/env python3
"""runs every translator of the registered properties (source -> lean/VrpModel/Generated/*.lean), so that a build from
a fresh checkout always starts from what /repo says now (VERIF_REPO is honoured by the translators that support it)"""
import os, sys
sys.path.insert(0, os.path.dirname(os.path.abspath(__file__)))
import props as P
bad = 0
for pid, cfg in sorted(P.PROPS.items()):
    for t in cfg.get("translators", []):
        try:
            ok, msg = t()
        except Exception as e:  # a translator that cannot read the source is reported, the build decides
            ok, msg = False, repr(e)
        print(f"translator {pid}.{t.__name__}: {'ok' if ok else 'FAILED'} {str(msg)[:200]}")
        bad += 0 if ok else 1
sys.exit(0)
