#!/usr/bin/env python3
"""prints two lines: lake targets and cargo --bin args of the registered checks"""
import os, sys
sys.path.insert(0, os.path.dirname(os.path.abspath(__file__)))
import props as P
lean, bins = [], []
for pid in sorted(P.META):
    cfg = P.PROPS[pid]
    lean += cfg["proof_modules"] + cfg.get("model_modules", []) + [cfg["drv"]]
    bins += ["--bin", cfg["bin"]]
print(" ".join(dict.fromkeys(lean)))
print(" ".join(bins))
