#!/usr/bin/env python3
"""prints two lines: lake targets and cargo --bin args of the registered checks"""
import os, sys
sys.path.insert(0, os.path.dirname(os.path.abspath(__file__)))
import props as P
lean, bins = [], []
for pid in sorted(P.META):
    cfg = P.PROPS[pid]
    lean += cfg["proof_modules"] + cfg.get("model_modules", []) + [cfg["drv"]]
    bins += ["--bin", cfg["bin"]]
    for sec in cfg.get("secondary", []):
        lean += [sec["drv"]]
        bins += ["--bin", sec["bin"]]
print(" ".join(dict.fromkeys(lean)))
seen, out = set(), []
for i in range(0, len(bins), 2):
    if bins[i + 1] not in seen:
        seen.add(bins[i + 1]); out += bins[i:i + 2]
print(" ".join(out))
