"""shared configuration pieces of the solver-level checks (C01, C02, C03): one campaign, three oracle groups"""


def make_compare(key):
    def compare(case, verdict):
        impl = case.get("impl")
        if isinstance(impl, dict) and "panic" in impl:
            return {"agree": False, "holds": False, "detail": "solver panicked: " + str(impl["panic"])[:300]}
        info = verdict.get("info", {})
        if "inexact" in info:
            return {"skipped": True}
        if isinstance(impl, dict) and "error" in impl:
            # a generated problem the reader rejects is a harness matter, a solver error is a failure
            if str(impl["error"]).startswith("generated problem is invalid"):
                return {"skipped": True}
            return {"agree": True, "holds": False, "detail": "solver returned an error: " + str(impl["error"])[:300]}
        if info.get("operator_history") and key != "partition":
            # what an operator history ends in is judged by the partition specification only (pins, relation exemptions and
            # schedules of histories are C04's and C05's subject)
            return {"skipped": True}
        if info.get("clustered") and key == "replay":
            # vicinity clustering: of the replay specification only the commute clause applies (every reported commute leg is the
            # routing data of the clustering profile in the direction travelled)
            ok = verdict.get("oracle", {}).get("commute")
            msgs = info.get("commute", [])
            return {"agree": True, "holds": bool(ok), "detail": "" if ok else "commute legs violated: " + "; ".join(msgs[:4])}
        if info.get("clustered") and key != "partition":
            # vicinity clustering (commute, parking) is outside the feasibility specification
            return {"skipped": True}
        ok = verdict.get("oracle", {}).get(key)
        msgs = info.get(key, [])
        detail = "" if ok else f"{key} violated: " + "; ".join(msgs[:4]) + (f" (+{len(msgs) - 4} more)" if len(msgs) > 4 else "")
        return {"agree": True, "holds": bool(ok), "detail": detail}
    return compare


def nontrivial(case, v):
    info = v.get("info", {})
    return (info.get("tours", 0) >= 2) or (info.get("unassigned", 0) >= 1 and info.get("tours", 0) >= 1)


def extra(cases, verdicts):
    import collections
    cfg_of = lambda c: "operator-history/-/-" if c.get("k") == "ophist" else (c.get("impl") or {}).get("config", "?")
    cfgs = collections.Counter(cfg_of(c) for c in cases)
    pops = collections.Counter(k.split("/")[0] for k in cfgs.elements())
    hyp = collections.Counter(k.split("/")[1] if "/" in k else "?" for k in cfgs.elements())
    par = collections.Counter(k.split("/")[2] if k.count("/") >= 2 else "?" for k in cfgs.elements())
    tours = sum(verdicts.get(c["id"], {}).get("info", {}).get("tours", 0) for c in cases)
    feats = collections.Counter()
    for c in cases:
        sp = c.get("sp", {})
        if any(len(j["tasks"]) > 1 for j in sp.get("jobs", [])): feats["multi_task_jobs"] += 1
        if any(s["reloads"] for v in sp.get("vehicles", []) for s in v["shifts"]): feats["reloads"] += 1
        if any(s["breaks"] for v in sp.get("vehicles", []) for s in v["shifts"]): feats["breaks"] += 1
        if any(j["skills_all"] or j["skills_one"] or j["skills_none"] for j in sp.get("jobs", [])): feats["skills"] += 1
        if any(j["group"] for j in sp.get("jobs", [])): feats["groups"] += 1
        if any(j["compat"] for j in sp.get("jobs", [])): feats["compatibility"] += 1
        if any(t["order"] is not None for j in sp.get("jobs", []) for t in j["tasks"]): feats["order"] += 1
        if any(v["max_distance"] or v["max_duration"] or v["tour_size"] for v in sp.get("vehicles", [])): feats["limits"] += 1
        if len(sp.get("profiles", [])) > 1: feats["two_profiles"] += 1
        if ((c.get("impl") or {}).get("sp_final") or {}).get("relations"): feats["relations"] += 1
        if sp.get("objectives"): feats["explicit_objectives"] += 1
        if sp.get("clustering"): feats["vicinity_clustering"] += 1
        if any(p.get("errors") for p in sp.get("profiles", [])): feats["dead_end_places_error_codes"] += 1
        if c.get("k") == "merge_init": feats["merge_init_initial_solution_zero_generations"] += 1
        if (sp.get("clustering") or {}).get("filtering") is not None: feats["clustering_with_explicit_filtering"] += 1
    return {"solver_runs": sum(1 for c in cases if c.get("k") != "ophist"),
            "operator_histories_judged_by_partition": sum(1 for c in cases if c.get("k") == "ophist"), "tours_checked": tours, "populations": dict(pops), "hyper_heuristics": dict(hyp),
            "parallelism_layouts": dict(par), "problem_features": dict(feats)}


RULE = ("pragen problems (4-14 jobs; random mix of: multi-task jobs with tags, alternative places, 1-2 time windows, 1-2 capacity "
        "dimensions, skills, groups, compatibility, order, distance/duration/size limits, reloads, optional breaks, two profiles, scaled "
        "profiles, open/closed and multiple shifts, relations derived from a first solve) with METRIC matrices, solved by the real solver "
        "built through the vrp-cli config reader under an enumerated configuration row (population greedy/elitism/rosomaxa x hyper "
        "static-full/dynamic/local-heavy/ruin-recreate-only x termination generations/time/variation x Parallelism layouts 1x1..2x8); corpus: "
        "the crafted non-metric instance of known finding S7; every fifth problem states explicit objectives (work balance, compact tours, arrival time, fast service, distance/duration cost kinds, "
        "maximize tours), every twelfth has long tours (30-44 jobs on 1-2 vehicles); every sixth problem asks for vicinity clustering (both visiting policies, all serving "
        "policies, with/without an explicit filtering list, relations derived in half of them) and is judged by the partition specification only; every eighth plain problem has a routing matrix with errorCodes (the places of one or two "
        "single-task jobs are dead ends: no leg out of them is reachable); 24 deterministic merge_init cases (a feasible initial solution with a shared-resource "
        "reload followed by another reload, zero generations: S62). Non-trivial: >= 2 tours, or >= 1 tour and >= 1 unassigned job. "
        "Distinct = SHA-256 of the canonical case input")


MARKER_MSG = "a listed reload/break is not at its place"


def marker_relation_only(case, detail, m):
    """known-finding predicate (S45): the ONLY thing wrong with the solution is that a reload / break listed in a sequence or
    strict relation is not where the relation puts it (the customer jobs of the relation keep their order); any other message
    on the same case is not covered"""
    if isinstance(detail, str) and detail.startswith("oracle failed (operator histories"):
        # secondary stage (C04's histories judged under C01): only the feasibility entry fails and every note of the first
        # failing step says that a listed / pinned reload or break is not at its place
        head, _, rest = detail.partition("): ")
        keys, _, notes_text = rest.partition(" ")
        if keys != "assigned_part_feasible":
            return False
        try:
            import json as _json
            notes = _json.loads(notes_text)
        except Exception:
            return False
        ok = ("a pinned marker (reload/break) left its place", MARKER_MSG)
        return bool(notes) and len(notes) < 6 and all(any(t in n.get("what", "") for t in ok) and "; " not in n.get("what", "") for n in notes)
    if not isinstance(detail, str) or not detail.startswith("feasible violated: ") or "more)" in detail:
        return False
    msgs = [x for x in detail[len("feasible violated: "):].split("; ") if x]
    return bool(msgs) and all(MARKER_MSG in x for x in msgs)


def solution_level_after_diversify(case, detail, m):
    """known-finding predicate (S60, seen through the secondary stage of C01): the feasibility oracle of one of C04's operator
    histories fails, every note belongs to a step of the diversification composite / the infeasible search and names a
    solution-level rule (one tour per group, capacity of a shared reload resource) and nothing else"""
    import re as _re, json as _json
    if not isinstance(detail, str) or not detail.startswith("oracle failed (operator histories"):
        return False
    head, _, rest = detail.partition("): ")
    keys, _, notes_text = rest.partition(" ")
    if keys != "assigned_part_feasible":
        return False
    try:
        notes = _json.loads(notes_text)
    except Exception:
        return False
    rxs = (r"^infeasible: group \S+ is served by \d+ tours$", r"^infeasible: shared resource \S+: \[[-0-9, ]*\] drawn, capacity \[[-0-9, ]*\]$")
    return bool(notes) and len(notes) < 6 and all(
        n.get("op") in ("diversify", "infeasible_search") and any(_re.match(rx, n.get("what", "")) for rx in rxs) for n in notes)


PREDICATES = {"marker_relation_only": marker_relation_only}
