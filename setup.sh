#!/bin/bash
# Builds the whole framework offline from files on disk: Lean models/proofs/drivers, Rust harness.
set -e
cd "$(dirname "$0")"
export CARGO_NET_OFFLINE=true
mkdir -p work/locks evidence replays
exes=""
for f in lean/Drv/C[0-9][0-9].lean; do n=$(basename $f .lean); exes="$exes drv_$(echo $n | tr 'C' 'c')"; done
( cd lean && lake build VrpModel VrpProofs $exes )
( cd harness && { [ -f Cargo.lock ] || cp /repo/Cargo.lock . ; } ; cargo build --offline --bins 2>&1 | tail -3 )
echo "setup done"
