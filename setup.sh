#!/bin/bash
# Builds the framework offline from files on disk: Lean models/proofs/drivers and the Rust harness of every
# registered (verified) property must build; anything else (work in progress) is built best-effort.
cd "$(dirname "$0")"
export CARGO_NET_OFFLINE=true
mkdir -p work/locks evidence replays
python3 lib/setup_targets.py > work/setup_targets.txt || exit 1
# generated model parts are regenerated from /repo's current sources before anything is built
python3 lib/run_translators.py
lean_targets=$(sed -n 1p work/setup_targets.txt)
bins=$(sed -n 2p work/setup_targets.txt)
( cd lean && lake build $lean_targets ) || { echo "setup: lean build failed"; exit 1; }
( cd harness && { [ -f Cargo.lock ] || cp /repo/Cargo.lock . ; } ; cargo build --offline $bins 2>&1 | tail -3 ; exit ${PIPESTATUS[0]} ) || { echo "setup: cargo build failed"; exit 1; }
# best effort for the rest
( cd lean && lake build VrpModel VrpProofs > /dev/null 2>&1 ) || echo "setup: (note) some unregistered Lean modules do not build yet"
echo "setup done"
