#!/bin/bash
# Builds the whole framework offline from files on disk: Lean models/proofs/drivers, Rust harness.
set -e
cd "$(dirname "$0")"
export CARGO_NET_OFFLINE=true
mkdir -p work/locks evidence replays
( cd lean && lake build VrpModel VrpProofs && lake build $(grep -A1 '^\[\[lean_exe\]\]' lakefile.toml | grep name | sed 's/name = "\(.*\)"/\1/') )
( cd harness && [ -f Cargo.lock ] || cp /repo/Cargo.lock . ; cargo build --offline --bins 2>&1 | tail -3 )
echo "setup done"
