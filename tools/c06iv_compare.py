#!/usr/bin/env python3
"""Compares the harness output of the C06 "iv" cases (tours with reload markers) with the Lean driver's output.

usage: c06iv_compare.py <harness.jsonl> <driver.jsonl> [--show N]

For every case: `model == impl` as whole objects (fields legs, any, concrete, sched, intervals, caches, tour_kept),
and every oracle must be true. Prints the disagreements / false oracles (first N in full) and the distribution of
the cases (intervals per tour, carried load, accepted / refused positions). Exit code 1 if anything is wrong.
"""
import json
import sys
from collections import Counter


def main():
    args, show, it = [], 3, iter(sys.argv[1:])
    for a in it:
        if a == "--show":
            show = int(next(it))
        else:
            args.append(a)
    cases = {}
    with open(args[0]) as f:
        for line in f:
            line = line.strip()
            if line:
                c = json.loads(line)
                cases[c["id"]] = c
    verdicts = {}
    with open(args[1]) as f:
        for line in f:
            line = line.strip()
            if line:
                v = json.loads(line)
                verdicts[v["id"]] = v

    disagreements, false_oracles, errors, panics, no_oracle = [], [], [], [], 0
    dist_iv, carried, accepted, refused, spec_pos = Counter(), 0, 0, 0, 0
    base_ok = exists = impl_ok = route_ok = cap_ok = cap_ref = cap_both = in_thm = 0
    for cid, case in sorted(cases.items()):
        v = verdicts.get(cid)
        if v is None:
            errors.append((cid, "no driver output"))
            continue
        if "error" in v:
            errors.append((cid, v["error"]))
            continue
        impl = case["impl"]
        if "panic" in impl:
            panics.append((cid, impl["panic"]))
            continue
        model = v["model"]
        # as lib/props.py default_compare: the whole objects must be equal (same keys, same values)
        bad = sorted(k for k in set(model) | set(impl) if model.get(k) != impl.get(k)) if model != impl else []
        if bad:
            disagreements.append((cid, bad))
        if not v["oracle"]:
            no_oracle += 1
        wrong = [k for k, ok in v["oracle"].items() if ok is not True]
        if wrong:
            false_oracles.append((cid, wrong))
        info = v["info"]
        dist_iv[info["intervals"]] += 1
        carried += bool(info["carried"])
        accepted += info["accepted"]
        refused += info["refused"]
        spec_pos += info["spec_positions"]
        base_ok += bool(info["base_ok"])
        exists += bool(info["exists_feasible"])
        impl_ok += bool(info["impl_any_ok"])
        route_ok += bool(info["route_ok"])
        in_thm += bool(info.get("in_soundness_theorem"))
        cap_ok += info["cap_ok_legs"]
        cap_ref += info["cap_refused_legs"]
        cap_both += info["cap_ok_legs"] > 0 and info["cap_refused_legs"] > 0

    print(f"cases {len(cases)}  disagreements {len(disagreements)}  false oracles {len(false_oracles)}  "
          f"driver errors {len(errors)}  panics {len(panics)}  without oracle (base tour infeasible) {no_oracle}")
    print(f"  base_ok {base_ok}  route-level ok {route_ok}  SPEC finds a position {exists}  impl Any succeeds {impl_ok}")
    print(f"  intervals per tour {dict(sorted(dist_iv.items()))}  tours with carried load {carried}")
    print(f"  positions: accepted {accepted}  refused {refused}  (SPEC-feasible positions {spec_pos})")
    print(f"  cases within the hypotheses of C06Iv.evalJobIv_sound {in_thm}")
    print(f"  capacity test alone: legs passing {cap_ok}  legs refused {cap_ref}  tours with both kinds of legs {cap_both}")
    for name, items in (("DISAGREEMENT", disagreements), ("FALSE ORACLE", false_oracles), ("ERROR", errors), ("PANIC", panics)):
        for cid, what in items[:show]:
            print(f"{name} case {cid}: {what}")
            if name in ("DISAGREEMENT", "FALSE ORACLE"):
                c = dict(cases[cid])
                impl = c.pop("impl")
                print("  case  " + json.dumps(c))
                if name == "DISAGREEMENT":
                    for k in what:
                        print(f"  impl.{k}  {json.dumps(impl.get(k))}")
                        print(f"  model.{k} {json.dumps(verdicts[cid]['model'].get(k))}")
                else:
                    print("  impl  " + json.dumps({k: impl[k] for k in ("any", "concrete", "intervals", "caches")}))
        if len(items) > show:
            print(f"{name}: {len(items) - show} more: {[cid for cid, _ in items[show:show + 40]]}")
    sys.exit(1 if (disagreements or false_oracles or errors or panics) else 0)


if __name__ == "__main__":
    main()
