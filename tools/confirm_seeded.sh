#!/bin/bash
# usage: tools/confirm_seeded.sh <seeded-id> <crate> <demo test file under seeded/<id>/demo> [<tests dir under crate, default tests>]
# Confirms an independent seeded change in a scratch worktree (never in /repo): the demonstration passes on the original tree,
# fails with the change, and the unedited workspace test suite passes with the change. Writes seeded/<id>/confirm.log and adds
# a "confirmed" entry to seeded/<id>/meta.json. The worktree and its build output are removed at the end.
id=$1; crate=$2; demo=$3; tdir=${4:-tests}
wt=/tmp/confirm-$id
log=/verif/seeded/$id/confirm.log
export CARGO_NET_OFFLINE=true
git -C /repo worktree remove --force $wt 2>/dev/null
git -C /repo worktree add --detach $wt HEAD > /dev/null 2>&1 || { echo "cannot create worktree"; exit 2; }
name=$(basename $demo .rs)
{
echo "== confirm $id at /repo $(git -C /repo rev-parse --short HEAD) on $(date -u +%FT%TZ)"
cp /verif/seeded/$id/demo/$demo $wt/$crate/$tdir/$name.rs
mkdir -p $wt/SEEDED && cp -r /verif/seeded/$id/demo $wt/SEEDED/demo
cd $wt
echo "-- demonstration on the ORIGINAL tree: cargo test -p $crate --test $name"
if [ "$tdir" = examples ]; then run="cargo run -p $crate --example $name --offline -j 6"; else run="cargo test -p $crate --test $name --offline -j 6 -- --test-threads 1"; fi
$run 2>&1 | grep -vE "Compiling|Finished|Running|^warning|^ *\||^ *=|^ *-->|^$" | tail -25
orig=${PIPESTATUS[0]}
git apply /verif/seeded/$id/patch.diff || { echo "patch does not apply"; }
echo "-- demonstration WITH the change"
$run 2>&1 | grep -vE "Compiling|Finished|Running|^warning|^ *\||^ *=|^ *-->|^$" | tail -25
chg=${PIPESTATUS[0]}
rm $wt/$crate/$tdir/$name.rs; rm -rf $wt/SEEDED
echo "-- unedited workspace test suite WITH the change: cargo test --workspace --no-fail-fast --offline"
cargo test --workspace --no-fail-fast --offline -j 6 -- --test-threads 6 2>&1 | grep -E "test result|FAILED|failed|panicked" | head -60
suite=${PIPESTATUS[0]}
echo "== exit codes: demo original=$orig  demo changed=$chg  suite changed=$suite"
} > $log 2>&1
python3 - "$id" "$orig" "$chg" "$suite" <<'PY'
import json,sys
id,o,c,s=sys.argv[1:5]
p=f'/verif/seeded/{id}/meta.json'
d=json.load(open(p))
d['confirmed']={'by':'main session, scratch worktree /tmp/confirm-'+id+' (tools/confirm_seeded.sh)',
  'demo_exit_original_tree':int(o),'demo_exit_changed_tree':int(c),'workspace_suite_exit_changed_tree':int(s),'log':'confirm.log'}
json.dump(d,open(p,'w'),indent=1)
print(id,'demo original',o,'demo changed',c,'suite',s)
PY
cd /verif
git -C /repo worktree remove --force $wt
