#!/bin/bash
# usage: tools/confirm_seeded_cli.sh <seeded-id> "<demo command, run inside the worktree; $CLI = path of the built vrp-cli; demo files under SEEDED/demo>"
# like confirm_seeded.sh for demonstrations that drive the command line tool
id=$1; cmd=$2
wt=/tmp/confirm-$id
log=/verif/seeded/$id/confirm.log
export CARGO_NET_OFFLINE=true
git -C /repo worktree remove --force $wt 2>/dev/null
git -C /repo worktree add --detach $wt HEAD > /dev/null 2>&1 || { echo "cannot create worktree"; exit 2; }
{
echo "== confirm $id at /repo $(git -C /repo rev-parse --short HEAD) on $(date -u +%FT%TZ)"
mkdir -p $wt/SEEDED && cp -r /verif/seeded/$id/demo $wt/SEEDED/demo
cd $wt
export CLI=$wt/target/debug/vrp-cli
cargo build -p vrp-cli --offline -j 6 2>&1 | tail -1
echo "-- demonstration on the ORIGINAL tree: $cmd"
bash -c "$cmd" 2>&1 | tail -15; orig=${PIPESTATUS[0]}
git apply /verif/seeded/$id/patch.diff || echo "patch does not apply"
cargo build -p vrp-cli --offline -j 6 2>&1 | tail -1
echo "-- demonstration WITH the change"
bash -c "$cmd" 2>&1 | tail -15; chg=${PIPESTATUS[0]}
rm -rf $wt/SEEDED
echo "-- unedited workspace test suite WITH the change"
cargo test --workspace --no-fail-fast --offline -j 6 -- --test-threads 6 2>&1 | grep -E "test result|FAILED|failed|panicked" | head -60
suite=${PIPESTATUS[0]}
echo "== exit codes: demo original=$orig  demo changed=$chg  suite changed=$suite"
} > $log 2>&1
python3 - "$id" "$orig" "$chg" "$suite" <<'PY'
import json,sys
id,o,c,s=sys.argv[1:5]
p=f'/verif/seeded/{id}/meta.json'
d=json.load(open(p))
d['confirmed']={'by':'main session, scratch worktree /tmp/confirm-'+id+' (tools/confirm_seeded_cli.sh)',
  'demo_exit_original_tree':int(o),'demo_exit_changed_tree':int(c),'workspace_suite_exit_changed_tree':int(s),'log':'confirm.log'}
json.dump(d,open(p,'w'),indent=1)
print(id,'demo original',o,'demo changed',c,'suite',s)
PY
cd /verif
git -C /repo worktree remove --force $wt
