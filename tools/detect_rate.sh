#!/bin/bash
# usage: tools/detect_rate.sh <seeded-id> <check> <seed> [<seed>...]   applies the seeded change once, runs the check for every seed (evidence kept), reverts
id=$1; chk=$2; shift 2
cd /verif
if [ -n "$(git -C /repo status --porcelain)" ]; then echo "/repo is not clean"; exit 2; fi
git -C /repo apply /verif/seeded/$id/patch.diff || { echo "patch does not apply"; exit 2; }
cp evidence/$chk.json /tmp/detect_rate.$chk.keep 2>/dev/null
for sd in "$@"; do
  ./check $chk --seed $sd > /tmp/detect_rate.out 2>&1; rc=$?
  echo "$id vs $chk seed=$sd rc=$rc $(grep -c '^VIOLATION' /tmp/detect_rate.out)v $(grep -E '^\[check\] C' /tmp/detect_rate.out | grep -o 'disagreements=[0-9]* oracle_failures=[0-9]*') $(grep -c 'no-failing-input-found' /tmp/detect_rate.out)nf"
done
cp /tmp/detect_rate.$chk.keep evidence/$chk.json 2>/dev/null
git -C /repo checkout -- .
python3 lib/run_translators.py > /dev/null 2>&1
