#!/usr/bin/env python3
"""merge_proposed.py <Cxx>: merges known_findings.<Cxx>.proposed.json (status known) into known_findings.json"""
import json, sys, os
root = os.path.dirname(os.path.dirname(os.path.abspath(__file__)))
pid = sys.argv[1]
k = json.load(open(os.path.join(root, "known_findings.json")))
p = json.load(open(os.path.join(root, f"known_findings.{pid}.proposed.json")))
have = {json.dumps(e.get("match"), sort_keys=True) for e in k if e.get("status") == "known"}
n = 0
for e in p:
    if e.get("status") != "known" or e.get("property") != pid:
        continue
    key = json.dumps(e.get("match"), sort_keys=True)
    if key not in have:
        k.append(e); have.add(key); n += 1
json.dump(k, open(os.path.join(root, "known_findings.json"), "w"), indent=1)
print("merged", n)
