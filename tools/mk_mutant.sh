#!/bin/bash
# usage: mk_mutant.sh <name> <file-relative-to-repo> <python-regex-from> <to>   (applies in /repo, saves the diff, reverts)
set -e
name=$1; file=$2; from=$3; to=$4
cd /repo
python3 - "$file" "$from" "$to" <<'PY'
import sys,re
f,fr,to=sys.argv[1:4]
s=open(f).read()
n=len(re.findall(fr,s,flags=re.S))
if n!=1:
    print(f"pattern matched {n} times in {f}",file=sys.stderr); sys.exit(3)
s=re.sub(fr,lambda m: to,s,count=1,flags=re.S)
open(f,'w').write(s)
PY
git diff > /verif/mutants/$name.patch
git checkout -- .
echo "saved /verif/mutants/$name.patch ($(wc -l < /verif/mutants/$name.patch) lines)"
