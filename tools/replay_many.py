#!/usr/bin/env python3
"""replay one stored case N times through harness + driver (histories depend on hash order, so outcomes can vary between
runs); prints how many runs fail which oracle.  usage: replay_many.py Cxx <replay.json|case.json> [N]"""
import json, subprocess, sys, collections, os, tempfile
prop, path, n = sys.argv[1], sys.argv[2], int(sys.argv[3]) if len(sys.argv) > 3 else 10
d = json.load(open(path))
case = d.get("case", d)
case = {k: v for k, v in case.items() if k != "impl"}
case.setdefault("id", 0)
tmp = tempfile.mkdtemp(prefix="replay_many_")
inp = os.path.join(tmp, "case.json"); json.dump(case, open(inp, "w"))
binp = os.environ.get("REPLAY_BIN_DIR", "/verif/harness/target/debug") + "/" + ("c01" if prop.lower() in ("c02", "c03") else prop.lower())
drv = "/verif/lean/.lake/build/bin/drv_" + ("c01" if prop.lower() in ("c02", "c03") else prop.lower())
cnt = collections.Counter()
for i in range(n):
    out = os.path.join(tmp, f"o{i}.jsonl")
    subprocess.run([binp, "--replay", inp, "--out", out], stdout=subprocess.DEVNULL, stderr=subprocess.DEVNULL)
    line = open(out).readline()
    impl = json.loads(line).get("impl", {})
    if "panic" in impl:
        cnt["panic: " + str(impl["panic"])[:120]] += 1; continue
    v = subprocess.run([drv], input=line, capture_output=True, text=True).stdout
    v = json.loads(v.splitlines()[0])
    bad = sorted(k for k, ok in v.get("oracle", {}).items() if ok is False)
    cnt[",".join(bad) or "ok"] += 1
print(dict(cnt))
import shutil; shutil.rmtree(tmp)
