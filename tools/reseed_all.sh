#!/bin/bash
# usage: tools/reseed_all.sh [<seeded-id>...]   re-validates seeded changes (default: all under seeded/) against their own check
cd /verif
ids="$@"
[ -z "$ids" ] && ids=$(ls seeded | grep -E '^C[0-9]+(-r[0-9]+)?$' | sort)
for id in $ids; do
  chk=${id%%-*}
  grep -q '"expected_rc_on_head": 0' seeded/$id/meta.json && { echo "== $id superseded (expected rc=0 on HEAD)"; continue; }
  tools/run_seeded.sh $id $chk 2>&1 | grep -E "^==|patch does not apply|not clean" | head -2
done
