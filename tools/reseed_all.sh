#!/bin/bash
# usage: tools/reseed_all.sh [<seeded-id>...]   re-validates seeded changes (default: all under seeded/) against their own check
cd /verif
ids="$@"
[ -z "$ids" ] && ids=$(ls seeded | grep -E '^C[0-9]+(-r[0-9]+)?$' | sort)
for id in $ids; do
  chk=${id%%-*}
  tools/run_seeded.sh $id $chk 2>&1 | grep -E "^==|patch does not apply|not clean" | head -2
done
