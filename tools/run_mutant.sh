#!/bin/bash
# usage: run_mutant.sh <patch> <Cxx> [tier]  -- applies the patch to /repo, runs the check, reverts; prints the verdict line
patch=$1; pid=$2; tier=${3:-quick}
cd /repo && git apply "$patch" || { echo "patch does not apply"; exit 2; }
cd /verif && ./check $pid --tier $tier > /tmp/mut_$pid.out 2> /tmp/mut_$pid.err; rc=$?
cd /repo && git checkout -- . 
echo "$(basename $patch) $pid rc=$rc $(grep -m1 VIOLATION /tmp/mut_$pid.out) | $(grep -m1 'obligations=' /tmp/mut_$pid.err)"
