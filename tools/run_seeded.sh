#!/bin/bash
# usage: tools/run_seeded.sh <seeded-id> <check> [<check>...]   (applies seeded/<id>/patch.diff to /repo, runs the checks, reverts)
set -u
id=$1; shift
cd /verif
if [ -n "$(git -C /repo status --porcelain)" ]; then echo "/repo is not clean"; exit 2; fi
git -C /repo apply /verif/seeded/$id/patch.diff || { echo "patch does not apply"; exit 2; }
mkdir -p work/seeded
for c in "$@"; do
  # evidence files describe runs on the unchanged tree only: keep them
  cp evidence/$c.json work/seeded/evidence.$c.keep 2>/dev/null
  ./check $c > work/seeded/$id.$c.out 2>&1; rc=$?
  cp evidence/$c.json work/seeded/$id.$c.evidence.json 2>/dev/null
  cp work/seeded/evidence.$c.keep evidence/$c.json 2>/dev/null
  echo "== $id vs $c: rc=$rc"; grep -E "^\[check\]|^VIOLATION|^KNOWN-FINDING" work/seeded/$id.$c.out | cut -c1-220 | head -6
done
git -C /repo checkout -- .
# translators regenerated model parts from the changed sources: back to what the unchanged tree says
python3 lib/run_translators.py > /dev/null 2>&1
git -C /repo status --porcelain | head -3
