#!/usr/bin/env python3
"""prints the brief for a fresh seeded-breakage agent: ONLY the property record and a scratch worktree path (nothing from /verif)"""
import json, sys
pid = sys.argv[1]
rnd = sys.argv[2] if len(sys.argv) > 2 else ""   # round tag: worktree /tmp/seed<rnd>-Cxx
rec = [json.loads(l) for l in open('/verif/properties.jsonl') if json.loads(l)['id'] == pid][0]
wt = f"/tmp/seed{rnd}-{pid}"
print(f"""You are a careful Rust engineer doing *regression seeding* for a verification study.

Work ONLY inside the scratch git worktree {wt} - a checkout of the Rust project reinterpretcat/vrp (a rich Vehicle Routing Problem solver; workspace crates vrp-core, vrp-pragmatic, vrp-scientific, vrp-cli, rosomaxa and examples). Never read or touch /repo, /verif or any other /tmp/seed* directory. There is no network: always pass `--offline` to cargo. The machine is shared: use at most 4 build jobs (`-j 4`) and `--test-threads 4`.

The property (verbatim record):

{json.dumps(rec, indent=1)}

Your task: craft ONE realistic source change to the project - the kind of regression a plausible refactoring, optimisation or bug-fix-gone-wrong would introduce - such that
1. the project still compiles and the existing test suite, unedited, still passes: `cargo test --workspace --no-fail-fast --offline -j 4 -- --test-threads 4` (a few stochastic tests, e.g. can_compact_tour, are known to be flaky; re-run a failing test alone a few times to tell flakiness from breakage);
2. the property above no longer holds on the changed tree;
3. the violation needs something specific to manifest (a particular kind of input, history, configuration, interleaving or crash point) - not a change that breaks every run or every input, and not one that simply panics everywhere;
4. you demonstrate it: a small self-contained demonstration (for example a Rust test file or example program to drop into the worktree, or a problem JSON plus the exact CLI command) that shows the property HOLDING on the original tree and FAILING on the changed tree. Actually run it both ways and record both outputs.

Deliverables, in {wt}/SEEDED/ :
- patch.diff : `git diff` of the source change ONLY (no demonstration files), applicable with `git apply` at the worktree's HEAD;
- demo/ : the demonstration files plus README.md with the exact commands and the outputs observed on both trees (if the demonstration is a test file, keep it here together with the instruction where to copy it);
- meta.json : {{"property": "{pid}", "summary": "...", "files_touched": ["..."], "needs_to_manifest": "...", "why_tests_pass": "...", "demo": "how to run it"}}.

Do not commit anything. When you are done, leave the worktree's tracked files REVERTED (`git checkout -- .`; SEEDED/ is untracked and stays) and delete the build output to free disk (`rm -rf {wt}/target`). Prefer a subtle change over a blatant one, but it must be a real violation of the property as stated, and your demonstration must show it. Your final answer: a short summary of the change, what is needed to manifest it, and the confirmation that the full test suite passes with it.""")
