#!/usr/bin/env python3
"""prints per property: obligations, evaluations, kinds, known findings reported - from evidence/*.json (to refresh DESIGN section 0)"""
import json, glob, os
for f in sorted(glob.glob(os.path.join(os.path.dirname(os.path.abspath(__file__)), "..", "evidence", "C*.json"))):
    e = json.load(open(f)); c = e["coverage"]
    print(e["property_id"], e["tier"], "seed", e["seed"], "thm", c["obligations"], "/", c["discharged"], "cases", c["evaluations"],
          "nontrivial", c["distinct_nontrivial"], "dis", c["correspondence_disagreements"], "fail", c["oracle_failures"],
          "known", len(c["known_findings_reported"]), "wall", e["wall_s"])
