#!/bin/bash
# usage: tools/sweep.sh "<seeds>" [tier]  - runs every registered check for the seeds, keeps evidence of seed 1 only
cd /verif
tier=${2:-quick}
mkdir -p work/sweep
for s in $1; do
  for c in $(cat lib/verified.txt); do
    cp evidence/$c.json work/sweep/$c.keep 2>/dev/null
    ./check $c --seed $s --tier $tier > work/sweep/$c.$s.out 2>&1; rc=$?
    [ "$s" != "1" ] && cp work/sweep/$c.keep evidence/$c.json 2>/dev/null
    echo "$c seed=$s rc=$rc $(grep -E '^\[check\] C' work/sweep/$c.$s.out | cut -c1-150)"
  done
done
