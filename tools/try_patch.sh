#!/bin/bash
# usage: try_patch.sh <slot> <patch-file> <Cxx> [<Cxx>...]
# Applies a patch in a scratch worktree of /repo (/tmp/vw-<slot>, created on demand and reused), runs the
# given checks against it (VERIF_REPO), restores the worktree. /repo itself is never touched.
# Remove a slot when done:  try_patch.sh <slot> --remove
slot=$1; patch=$2; shift 2
wt=/tmp/vw-$slot
if [ "$patch" == "--remove" ]; then
  git -C /repo worktree remove --force $wt 2>/dev/null; rm -rf $wt
  h=$(python3 -c "import hashlib;print(hashlib.sha256('$wt'.encode()).hexdigest()[:10])"); rm -rf /verif/work/alt/$h
  exit 0
fi
[ -d $wt ] || git -C /repo worktree add --detach $wt HEAD > /dev/null 2>&1 || { echo "cannot create worktree"; exit 2; }
exec 9> /tmp/vw-$slot.lock; flock 9
git -C $wt checkout -q --detach $(git -C /repo rev-parse HEAD) 2>/dev/null; git -C $wt checkout -- . ; git -C $wt clean -fdq -e target
git -C $wt apply "$patch" || { echo "$(basename $patch): patch does not apply"; exit 2; }
for pid in "$@"; do
  ( cd /verif && VERIF_REPO=$wt ./check $pid --tier ${TIER:-quick} > /tmp/vw-$slot.$pid.out 2> /tmp/vw-$slot.$pid.err ); rc=$?
  echo "$(basename $patch) $pid rc=$rc $(grep -m1 VIOLATION /tmp/vw-$slot.$pid.out) | $(grep -m1 'obligations=' /tmp/vw-$slot.$pid.err | sed 's/\[check\] //')"
done
git -C $wt checkout -- . ; git -C $wt clean -fdq -e target
